package carto_test

import (
	"math"
	"testing"

	"github.com/peterstace/simplefeatures/carto"
	"github.com/peterstace/simplefeatures/geom"
)

func TestAlbersRoundTripRadius(t *testing.T) {
	for _, r := range []float64{1, 2, 6371000} {
		p := carto.NewAlbersEqualAreaConic(r)
		in := geom.XY{X: 12, Y: 34}
		out := p.Reverse(p.Forward(in))
		if math.IsNaN(out.Y) || math.Abs(out.Y-in.Y) > 1e-9 || math.Abs(out.X-in.X) > 1e-9 {
			t.Errorf("radius %v: got %v want %v", r, out, in)
		}
	}
}
