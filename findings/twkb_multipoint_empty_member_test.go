package geom_test

// Demonstration of the defect repaired by "fix: TWKB encoder turns an empty Point
// inside a MultiPoint into the coordinate (0 0)" (copy into /repo/geom to run).

import (
	"testing"

	"github.com/peterstace/simplefeatures/geom"
)

func TestTWKBMultiPointEmptyMember(t *testing.T) {
	g, err := geom.UnmarshalWKT("MULTIPOINT(1 2,EMPTY)")
	if err != nil {
		t.Fatal(err)
	}
	b, err := geom.MarshalTWKB(g, 0)
	if err != nil {
		return // refused: acceptable
	}
	back, err := geom.UnmarshalTWKB(b)
	if err != nil {
		t.Fatal(err)
	}
	if n := back.MustAsMultiPoint().NumPoints(); n != 1 && back.AsText() != g.AsText() {
		t.Errorf("empty member turned into coordinates: %s", back.AsText())
	}
}
