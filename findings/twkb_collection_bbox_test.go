package geom_test

import (
	"testing"

	"github.com/peterstace/simplefeatures/geom"
)

func TestTWKBCollectionBBox(t *testing.T) {
	g, err := geom.UnmarshalWKT("GEOMETRYCOLLECTION(POINT(1 2),LINESTRING(3 4,5 6))")
	if err != nil {
		t.Fatal(err)
	}
	b, err := geom.MarshalTWKB(g, 0, geom.TWKBBoundingBoxHeader())
	if err != nil {
		t.Fatal(err)
	}
	env, ok, err := geom.UnmarshalTWKBEnvelope(b)
	if err != nil || !ok {
		t.Fatal(err, ok)
	}
	want := g.Envelope()
	if env.XYEnvelope.AsGeometry().AsText() != want.AsGeometry().AsText() {
		t.Errorf("bbox header %v, geometry envelope %v", env.XYEnvelope.AsGeometry().AsText(), want.AsGeometry().AsText())
	}
}
