package main

import (
	"flag"
	"fmt"
	"os"
	"path/filepath"
	"sort"
	"strings"
	"sync"
	"time"

	"govc/solve"
	"govc/vc"

	"golang.org/x/tools/go/packages"
	"golang.org/x/tools/go/ssa"
	"golang.org/x/tools/go/ssa/ssautil"
)

var (
	repo     = flag.String("repo", "/repo", "repository root")
	funcs    = flag.String("func", "", "comma-separated function keys to verify (dev mode)")
	prop     = flag.String("prop", "", "property id (check mode)")
	tier     = flag.String("tier", "quick", "quick|thorough")
	timeout  = flag.Int("timeout", 0, "per-obligation solver timeout (s)")
	verbose  = flag.Bool("v", false, "verbose")
	dump     = flag.String("dump", "", "directory to dump all obligation scripts")
	jobs     = flag.Int("j", 10, "parallel obligations")
	verifDir = flag.String("verif", "/verif", "verif root")
	ssaDump  = flag.String("ssa", "", "dump SSA of function key")
	ledgerUp = flag.Bool("update-ledger", false, "rewrite the ledger from this run (maintainer command)")
	listUnits = flag.Bool("list", false, "list units for the property")
	sweep     = flag.String("sweep", "", "dev: verify every function declared in source files matching this substring (comma-separated)")
)

func loadProgram() (*vc.Program, error) {
	cfg := &packages.Config{Mode: packages.LoadAllSyntax, Dir: *repo, BuildFlags: []string{"-tags=verif"},
		Env: append(os.Environ(), "GOFLAGS=-mod=mod", "GOPROXY=off", "GOSUMDB=off", "GOTOOLCHAIN=local")}
	pkgs, err := packages.Load(cfg, "./geom", "./rtree", "./carto")
	if err != nil {
		return nil, err
	}
	nerr := 0
	packages.Visit(pkgs, nil, func(p *packages.Package) {
		for _, e := range p.Errors {
			if strings.Contains(p.PkgPath, "simplefeatures") {
				fmt.Fprintln(os.Stderr, "load error:", e)
				nerr++
			}
		}
	})
	if nerr > 0 {
		return nil, fmt.Errorf("%d package load errors", nerr)
	}
	prog, spkgs := ssautil.AllPackages(pkgs, ssa.NaiveForm|ssa.GlobalDebug)
	prog.Build()
	p := &vc.Program{Prog: prog, Fset: pkgs[0].Fset, DB: vc.NewSpecDB(), Pkgs: map[string]*ssa.Package{}}
	for _, sp := range spkgs {
		if sp != nil && strings.Contains(sp.Pkg.Path(), "simplefeatures") {
			p.Pkgs[sp.Pkg.Name()] = sp
		}
	}
	for _, d := range []string{"geom", "rtree", "carto"} {
		if err := vc.LoadSpecs(p.DB, filepath.Join(*repo, d), d); err != nil {
			return nil, err
		}
	}
	p.ApplySweepsAndTypeInvs()
	return p, nil
}

type obResult struct {
	Ob  *vc.Obligation
	Ans solve.Answer
}

func solveAll(obls []*vc.Obligation, dir string, timeoutS int, seed int) []obResult {
	res := make([]obResult, len(obls))
	var wg sync.WaitGroup
	sem := make(chan struct{}, *jobs)
	for i, ob := range obls {
		wg.Add(1)
		sem <- struct{}{}
		go func(i int, ob *vc.Obligation) {
			defer wg.Done()
			defer func() { <-sem }()
			t := timeoutS
			if ob.Timeout > 0 && ob.Timeout > t {
				t = ob.Timeout
			}
			ans := solve.Check(dir, ob.Name, ob.Script, t, !ob.Cover, seed)
			res[i] = obResult{ob, ans}
		}(i, ob)
	}
	wg.Wait()
	return res
}

func main() {
	flag.Parse()
	t0 := time.Now()
	p, err := loadProgram()
	if err != nil {
		fmt.Fprintln(os.Stderr, "govc: load failed:", err)
		os.Exit(2)
	}
	if *verbose {
		fmt.Fprintf(os.Stderr, "loaded in %.1fs, %d contracts, %d preds, %d lemmas\n", time.Since(t0).Seconds(), len(p.DB.Contracts), len(p.DB.Preds), len(p.DB.Lemmas))
	}
	if *ssaDump != "" {
		fn := p.FindFunc(*ssaDump)
		if fn == nil {
			fmt.Fprintln(os.Stderr, "not found")
			os.Exit(2)
		}
		fn.WriteTo(os.Stdout)
		for _, a := range fn.AnonFuncs {
			a.WriteTo(os.Stdout)
		}
		return
	}
	if *prop != "" {
		os.Exit(runCheck(p, *prop, *tier))
	}
	if *sweep != "" {
		var ks []string
		for _, pat := range strings.Split(*sweep, ",") {
			ks = append(ks, p.FuncsInFiles(pat)...)
		}
		*funcs = strings.Join(ks, ",")
	}
	if *funcs == "" {
		fmt.Fprintln(os.Stderr, "nothing to do")
		os.Exit(2)
	}
	tmo := *timeout
	if tmo == 0 {
		tmo = 20
	}
	dir, _ := os.MkdirTemp("", "govc")
	defer os.RemoveAll(dir)
	exit := 0
	for _, key := range strings.Split(*funcs, ",") {
		r := p.VerifyFunc(key)
		fmt.Printf("== %s: %d obligations", key, len(r.Obligations))
		if r.Unsupported != "" {
			fmt.Printf("  UNSUPPORTED: %s", r.Unsupported)
			exit = 1
		}
		fmt.Println()
		if *dump != "" {
			os.MkdirAll(*dump, 0o755)
			for _, ob := range r.Obligations {
				os.WriteFile(filepath.Join(*dump, strings.NewReplacer("/", "_", "*", "P", "(", "", ")", "").Replace(ob.Name)+".smt2"), []byte(ob.Script), 0o644)
			}
		}
		results := solveAll(r.Obligations, dir, tmo, 0)
		sort.SliceStable(results, func(i, j int) bool { return results[i].Ob.Name < results[j].Ob.Name })
		for _, rr := range results {
			ok := rr.Ans.Status == solve.Unsat
			if rr.Ob.Cover {
				ok = rr.Ans.Status != solve.Unsat || !strings.Contains(rr.Ob.Name, "/cover#pre")
			}
			mark := "ok  "
			if !ok {
				mark = "FAIL"
				exit = 1
			}
			if !ok || *verbose {
				fmt.Printf("  %s %-70s %-8s %5.2fs %s  %s\n", mark, rr.Ob.Name, rr.Ans.Status, rr.Ans.Seconds, rr.Ob.Pos, rr.Ob.Descr)
				if !ok && *verbose {
					fmt.Printf("       %s\n", rr.Ans.Detail)
					if rr.Ans.Model != "" {
						fmt.Println(indent(trimModel(rr.Ans.Model, rr.Ob), "       "))
					}
				}
			}
		}
		if *verbose {
			for _, n := range r.Notes {
				fmt.Println("  note:", n)
			}
			fmt.Println("  inlined:", r.Inlined)
			fmt.Println("  contracts used:", r.Contracts)
			fmt.Println("  opaque:", r.Opaque)
		}
	}
	fmt.Printf("total %.1fs\n", time.Since(t0).Seconds())
	os.RemoveAll(dir)
	os.Exit(exit)
}

func indent(s, p string) string {
	return p + strings.ReplaceAll(strings.TrimRight(s, "\n"), "\n", "\n"+p)
}

// trimModel keeps only the model lines for the function's input constants.
func trimModel(m string, ob *vc.Obligation) string {
	var out []string
	lines := strings.Split(m, "\n")
	for i := 0; i < len(lines); i++ {
		for _, iv := range ob.Inputs {
			if strings.Contains(lines[i], "define-fun "+iv.Term+" ") {
				out = append(out, iv.Name+": "+strings.TrimSpace(lines[i]))
				if i+1 < len(lines) {
					out = append(out, "    "+strings.TrimSpace(lines[i+1]))
				}
			}
		}
	}
	return strings.Join(out, "\n")
}
