package main

import (
	"govc/solve"
	"govc/vc"
)

// tryReplay attempts to confirm a counterexample on the real code.
func tryReplay(p *vc.Program, ob *vc.Obligation, ans solve.Answer, dir string) (bool, string) {
	return false, "replay: not available for this obligation"
}
