package main

import (
	"context"
	"encoding/json"
	"fmt"
	"go/types"
	"math"
	"os"
	"os/exec"
	"path/filepath"
	"strconv"
	"strings"
	"time"

	"golang.org/x/tools/go/ssa"

	"govc/solve"
	"govc/vc"
)

// Replay: turn the solver's model of a failed (sat) obligation into concrete
// Go values for the parameters of the function under contract, call the real
// function from an in-package test injected with -overlay, and see whether
// the real code misbehaves the way the obligation says.  Confirmation is
// claimed only for obligation kinds whose failure is observable as a panic
// (safety obligations, and preconditions of callees, which guard the callee's own safety obligations);
// for the others the inputs are written to the replay file unconfirmed.

var panicKinds = map[string]bool{"pre": true, "pre-recv": true, "idx": true, "nil": true, "slice": true, "panic": true, "make": true, "shift": true, "assert": true, "cast": true, "div": true}

type sx struct {
	atom string
	list []*sx
}

func parseSx(s string) []*sx {
	var stack [][]*sx
	cur := []*sx{}
	i := 0
	for i < len(s) {
		c := s[i]
		switch {
		case c == '(':
			stack = append(stack, cur)
			cur = []*sx{}
			i++
		case c == ')':
			n := &sx{list: cur}
			if len(stack) == 0 {
				return cur
			}
			cur = stack[len(stack)-1]
			stack = stack[:len(stack)-1]
			cur = append(cur, n)
			i++
		case c == ' ' || c == '\n' || c == '\t' || c == '\r':
			i++
		case c == '|':
			j := strings.IndexByte(s[i+1:], '|')
			if j < 0 {
				return cur
			}
			cur = append(cur, &sx{atom: s[i : i+j+2]})
			i += j + 2
		default:
			j := i
			for j < len(s) && !strings.ContainsRune("() \n\t\r", rune(s[j])) {
				j++
			}
			cur = append(cur, &sx{atom: s[i:j]})
			i = j
		}
	}
	return cur
}

func (n *sx) String() string {
	if n.list == nil {
		return n.atom
	}
	var ps []string
	for _, c := range n.list {
		ps = append(ps, c.String())
	}
	return "(" + strings.Join(ps, " ") + ")"
}

func sxInt(n *sx) (int64, bool) {
	if n.list == nil {
		v, err := strconv.ParseInt(n.atom, 10, 64)
		if err != nil {
			// too large for int64: wrap through uint64
			u, err2 := strconv.ParseUint(n.atom, 10, 64)
			if err2 != nil {
				return 0, false
			}
			return int64(u), true
		}
		return v, true
	}
	if len(n.list) == 2 && n.list[0].atom == "-" {
		v, ok := sxInt(n.list[1])
		return -v, ok
	}
	return 0, false
}

func bitsOf(a string) (uint64, int, bool) {
	switch {
	case strings.HasPrefix(a, "#b"):
		v, err := strconv.ParseUint(a[2:], 2, 64)
		return v, len(a) - 2, err == nil
	case strings.HasPrefix(a, "#x"):
		v, err := strconv.ParseUint(a[2:], 16, 64)
		return v, 4 * (len(a) - 2), err == nil
	}
	return 0, 0, false
}

func sxFloat(n *sx) (string, bool) {
	if n.list != nil && len(n.list) == 4 && n.list[0].atom == "fp" {
		s, _, ok1 := bitsOf(n.list[1].atom)
		e, _, ok2 := bitsOf(n.list[2].atom)
		m, _, ok3 := bitsOf(n.list[3].atom)
		if ok1 && ok2 && ok3 {
			return fmt.Sprintf("math.Float64frombits(0x%x)", s<<63|e<<52|m), true
		}
	}
	if n.list != nil && len(n.list) == 4 && n.list[0].atom == "_" {
		switch n.list[1].atom {
		case "+zero":
			return "0.0", true
		case "-zero":
			return "math.Copysign(0, -1)", true
		case "NaN":
			return "math.NaN()", true
		case "+oo":
			return "math.Inf(1)", true
		case "-oo":
			return "math.Inf(-1)", true
		}
	}
	// real-mode models: decimals and fractions
	if n.list == nil {
		if f, err := strconv.ParseFloat(n.atom, 64); err == nil {
			return strconv.FormatFloat(f, 'g', -1, 64), true
		}
	}
	if n.list != nil && len(n.list) == 3 && n.list[0].atom == "/" {
		a, ok1 := sxFloat(n.list[1])
		b, ok2 := sxFloat(n.list[2])
		if ok1 && ok2 {
			return "(" + a + ")/(" + b + ")", true
		}
	}
	if n.list != nil && len(n.list) == 2 && n.list[0].atom == "-" {
		a, ok := sxFloat(n.list[1])
		return "-(" + a + ")", ok
	}
	return "", false
}

type replayer struct {
	script string
	dir    string
	cache  map[string]*sx
	calls  int
	fail   string
}

// eval asks the solver for the model values of terms (one consistent run).
func (r *replayer) eval(terms []string) bool {
	var need []string
	for _, t := range terms {
		if _, ok := r.cache[t]; !ok {
			need = append(need, t)
		}
	}
	if len(need) == 0 {
		return true
	}
	// all terms asked so far are asked again, so that one model answers them all
	all := need
	for t := range r.cache {
		all = append(all, t)
	}
	r.calls++
	file := filepath.Join(r.dir, fmt.Sprintf("replay_%d.smt2", r.calls))
	body := "(set-option :produce-models true)\n(set-logic ALL)\n" + r.script + "(get-value (" + strings.Join(all, " ") + "))\n"
	os.WriteFile(file, []byte(body), 0o644)
	defer os.Remove(file)
	ctx, cancel := context.WithTimeout(context.Background(), 60*time.Second)
	defer cancel()
	out, _ := exec.CommandContext(ctx, "z3-new", "-T:50", file).CombinedOutput()
	text := string(out)
	if !strings.HasPrefix(strings.TrimSpace(text), "sat") {
		r.fail = "model query did not return sat: " + firstLine(text)
		return false
	}
	i := strings.Index(text, "(")
	if i < 0 {
		r.fail = "no values in solver output"
		return false
	}
	top := parseSx(text[i:])
	if len(top) == 0 || top[0].list == nil {
		r.fail = "cannot parse get-value output"
		return false
	}
	pairs := top[0].list
	if len(pairs) != len(all) {
		r.fail = "get-value arity mismatch"
		return false
	}
	fresh := map[string]*sx{}
	for k, pr := range pairs {
		if pr.list == nil || len(pr.list) != 2 {
			r.fail = "bad get-value pair"
			return false
		}
		fresh[all[k]] = pr.list[1]
	}
	// consistency with what was used before
	for t, v := range r.cache {
		if fresh[t].String() != v.String() {
			r.fail = "solver produced a different model on re-query"
			return false
		}
	}
	r.cache = fresh
	return true
}

func firstLine(s string) string {
	if i := strings.IndexByte(s, '\n'); i >= 0 {
		return s[:i]
	}
	return s
}

func (r *replayer) declared(sym string) bool {
	return strings.Contains(r.script, "(declare-const "+sym+" ") || strings.Contains(r.script, "(declare-fun "+sym+" ")
}

const maxReplayElems = 1 << 14

// goValue builds a Go expression of type t from the model value of term.
func (r *replayer) goValue(term string, t types.Type, qual types.Qualifier, depth int) (string, bool) {
	if depth > 6 {
		r.fail = "value too deeply nested"
		return "", false
	}
	if !r.eval([]string{term}) {
		return "", false
	}
	v := r.cache[term]
	ts := types.TypeString(t, qual)
	switch u := t.Underlying().(type) {
	case *types.Basic:
		switch {
		case u.Info()&types.IsBoolean != 0:
			return ts + "(" + v.atom + ")", v.atom == "true" || v.atom == "false"
		case u.Info()&types.IsInteger != 0:
			n, ok := sxInt(v)
			if !ok {
				r.fail = "integer value " + v.String()
				return "", false
			}
			if u.Info()&types.IsUnsigned != 0 {
				return fmt.Sprintf("%s(%d)", ts, uint64(n)), true
			}
			return fmt.Sprintf("%s(%d)", ts, n), true
		case u.Info()&types.IsFloat != 0:
			f, ok := sxFloat(v)
			if !ok {
				r.fail = "float value " + v.String()
				return "", false
			}
			return ts + "(" + f + ")", true
		case u.Info()&types.IsString != 0:
			bs, ok := r.sliceElems(v, types.Typ[types.Uint8], qual, depth)
			if !ok {
				return "", false
			}
			return ts + "([]byte{" + strings.Join(bs, ", ") + "})", true
		}
	case *types.Slice:
		if v.list != nil && len(v.list) == 5 {
			if reg, ok := sxInt(v.list[1]); ok && reg == 0 {
				return ts + "(nil)", true
			}
		}
		es, ok := r.sliceElems(v, u.Elem(), qual, depth)
		if !ok {
			return "", false
		}
		return ts + "{" + strings.Join(es, ", ") + "}", true
	case *types.Struct:
		if v.list == nil && u.NumFields() == 0 {
			return ts + "{}", true
		}
		if v.list == nil || len(v.list) != u.NumFields()+1 {
			r.fail = "struct value " + v.String()
			return "", false
		}
		// positional constructor application: evaluate fields through selectors is
		// not needed; re-evaluate each field as its own term for nested heap reads
		var fs []string
		for i := 0; i < u.NumFields(); i++ {
			sel := fieldSelector(r.script, v.list[0].atom, i)
			if sel == "" {
				r.fail = "no selector for " + v.list[0].atom
				return "", false
			}
			fv, ok := r.goValue("("+sel+" "+term+")", u.Field(i).Type(), qual, depth+1)
			if !ok {
				return "", false
			}
			if u.Field(i).Name() == "_" {
				continue
			}
			fs = append(fs, u.Field(i).Name()+": "+fv)
		}
		return ts + "{" + strings.Join(fs, ", ") + "}", true
	case *types.Array:
		if u.Len() > 64 {
			r.fail = "large array"
			return "", false
		}
		var es []string
		for i := int64(0); i < u.Len(); i++ {
			ev, ok := r.goValue(fmt.Sprintf("(select %s %d)", term, i), u.Elem(), qual, depth+1)
			if !ok {
				return "", false
			}
			es = append(es, ev)
		}
		return ts + "{" + strings.Join(es, ", ") + "}", true
	case *types.Pointer:
		if v.list == nil || len(v.list) != 3 {
			r.fail = "pointer value " + v.String()
			return "", false
		}
		reg, _ := sxInt(v.list[1])
		idx, _ := sxInt(v.list[2])
		if reg == 0 {
			return "(" + ts + ")(nil)", true
		}
		if _, isStruct := u.Elem().Underlying().(*types.Struct); !isStruct || idx != 0 {
			r.fail = "pointer to non-struct or interior pointer"
			return "", false
		}
		h := vc.EntryHeapName(u.Elem())
		if !r.declared(h) {
			return "new(" + types.TypeString(u.Elem(), qual) + ")", true
		}
		pv, ok := r.goValue(fmt.Sprintf("(select (select %s %d) 0)", h, reg), u.Elem(), qual, depth+1)
		if !ok {
			return "", false
		}
		return "&" + pv, true
	}
	r.fail = "unsupported parameter type " + ts
	return "", false
}

func (r *replayer) sliceElems(v *sx, et types.Type, qual types.Qualifier, depth int) ([]string, bool) {
	if v.list == nil || len(v.list) != 5 {
		r.fail = "slice value " + v.String()
		return nil, false
	}
	reg, ok1 := sxInt(v.list[1])
	off, ok2 := sxInt(v.list[2])
	n, ok3 := sxInt(v.list[3])
	if !ok1 || !ok2 || !ok3 || n < 0 || n > maxReplayElems {
		r.fail = fmt.Sprintf("slice header %s (length beyond the replay limit of %d elements)", v.String(), maxReplayElems)
		return nil, false
	}
	h := vc.EntryHeapName(et)
	var es []string
	if !r.declared(h) {
		z := zeroExpr(et, qual)
		for i := int64(0); i < n; i++ {
			es = append(es, z)
		}
		return es, true
	}
	var terms []string
	for i := int64(0); i < n; i++ {
		terms = append(terms, fmt.Sprintf("(select (select %s %d) %d)", h, reg, off+i))
	}
	if !r.eval(terms) {
		return nil, false
	}
	for _, t := range terms {
		ev, ok := r.goValue(t, et, qual, depth+1)
		if !ok {
			return nil, false
		}
		es = append(es, ev)
	}
	return es, true
}

func zeroExpr(t types.Type, qual types.Qualifier) string {
	ts := types.TypeString(t, qual)
	switch u := t.Underlying().(type) {
	case *types.Basic:
		switch {
		case u.Info()&types.IsBoolean != 0:
			return "false"
		case u.Info()&types.IsString != 0:
			return `""`
		}
		return ts + "(0)"
	case *types.Struct, *types.Array:
		return ts + "{}"
	}
	return "(" + ts + ")(nil)"
}

// fieldSelector finds the i-th selector of the datatype whose constructor is ctor.
func fieldSelector(script, ctor string, i int) string {
	k := strings.Index(script, "((("+ctor+" ")
	if k < 0 {
		return ""
	}
	rest := script[k+2:]
	end := strings.Index(rest, "\n")
	if end > 0 {
		rest = rest[:end]
	}
	top := parseSx(rest)
	if len(top) == 0 || top[0].list == nil {
		return ""
	}
	fields := top[0].list[1:]
	if i >= len(fields) || fields[i].list == nil {
		return ""
	}
	return fields[i].list[0].atom
}

// tryReplay attempts to confirm a counterexample on the real code.
func tryReplay(p *vc.Program, ob *vc.Obligation, ans solve.Answer, dir string) (bool, string) {
	if ans.Status != solve.Sat {
		return false, "replay: the solver gave no counterexample (" + string(ans.Status) + ")"
	}
	fn := p.FindFunc(ob.Func)
	if fn == nil || fn.Parent() != nil {
		return false, "replay: not available (closure or unknown function)"
	}
	if strings.Contains(ob.Name, "/lemma/") {
		return false, "replay: lemma obligations have no executable subject"
	}
	pkg := fn.Pkg.Pkg
	qual := func(o *types.Package) string {
		if o == pkg {
			return ""
		}
		return o.Name()
	}
	script := strings.TrimSuffix(strings.TrimSpace(ob.Script), "(check-sat)") + "(check-sat)\n"
	r := &replayer{script: script, dir: dir, cache: map[string]*sx{}}
	byName := map[string]string{}
	for _, in := range ob.Inputs {
		byName[in.Name] = in.Term
	}
	var args []string
	var decls []string
	imports := map[string]bool{"fmt": true, "testing": true, "math": true}
	for i, prm := range fn.Params {
		term, ok := byName[prm.Name()]
		if !ok || term == "" {
			return false, "replay: parameter " + prm.Name() + " has no SMT term"
		}
		if !r.declared(term) {
			// not mentioned by the failing path: any value will do
			decls = append(decls, fmt.Sprintf("\tvar a%d %s", i, types.TypeString(prm.Type(), qual)))
			args = append(args, fmt.Sprintf("a%d", i))
			continue
		}
		ge, ok := r.goValue(term, prm.Type(), qual, 0)
		if !ok {
			return false, "replay: cannot build a Go value for parameter " + prm.Name() + ": " + r.fail
		}
		decls = append(decls, fmt.Sprintf("\ta%d := %s", i, ge))
		args = append(args, fmt.Sprintf("a%d", i))
	}
	for _, d := range decls {
		for _, o := range pkg.Imports() {
			if strings.Contains(d, o.Name()+".") {
				imports[o.Path()] = true
			}
		}
	}
	call := fn.Name() + "(" + strings.Join(args, ", ") + ")"
	if fn.Signature.Recv() != nil {
		call = "a0." + fn.Name() + "(" + strings.Join(args[1:], ", ") + ")"
	}
	if fn.Signature.Variadic() {
		call = strings.TrimSuffix(call, ")") + "...)"
	}
	var src strings.Builder
	fmt.Fprintf(&src, "package %s\n\nimport (\n", pkg.Name())
	for im := range imports {
		fmt.Fprintf(&src, "\t%q\n", im)
	}
	fmt.Fprintf(&src, ")\n\nvar _ = math.NaN\n\n// generated by govc: replay of %s\nfunc TestVerifReplay(t *testing.T) {\n", ob.Name)
	fmt.Fprintf(&src, "\tdefer func() {\n\t\tif r := recover(); r != nil {\n\t\t\tfmt.Printf(\"REPLAY-PANIC: %%v\\n\", r)\n\t\t}\n\t}()\n")
	for _, d := range decls {
		src.WriteString(d + "\n")
	}
	nres := fn.Signature.Results().Len()
	if nres == 0 {
		fmt.Fprintf(&src, "\t%s\n\tfmt.Println(\"REPLAY-RETURNED\")\n}\n", call)
	} else {
		var rs []string
		for i := 0; i < nres; i++ {
			rs = append(rs, fmt.Sprintf("r%d", i))
		}
		fmt.Fprintf(&src, "\t%s := %s\n\tfmt.Printf(\"REPLAY-RETURNED: %%v\\n\", []interface{}{%s})\n}\n", strings.Join(rs, ", "), call, strings.Join(rs, ", "))
	}
	// inject the test with -overlay and run it against /repo's working tree
	pkgDir := filepath.Dir(p.Prog.Fset.Position(fn.Pos()).Filename)
	if pkgDir == "." || pkgDir == "" {
		return false, "replay: cannot locate the package directory"
	}
	tf := filepath.Join(dir, "zz_verif_replay_test.go")
	os.WriteFile(tf, []byte(src.String()), 0o644)
	ov, _ := json.Marshal(map[string]map[string]string{"Replace": {filepath.Join(pkgDir, "zz_verif_replay_test.go"): tf}})
	ovf := filepath.Join(dir, "replay_overlay.json")
	os.WriteFile(ovf, ov, 0o644)
	ctx, cancel := context.WithTimeout(context.Background(), 180*time.Second)
	defer cancel()
	cmd := exec.CommandContext(ctx, "go", "test", "-tags", "verif", "-overlay", ovf, "-vet=off", "-count=1", "-v", "-timeout", "60s", "-run", "^TestVerifReplay$", ".")
	cmd.Dir = pkgDir
	cmd.Env = append(os.Environ(), "GOFLAGS=-mod=mod", "GOPROXY=off", "GOSUMDB=off", "GOTOOLCHAIN=local")
	out, _ := cmd.CombinedOutput()
	text := string(out)
	var sb strings.Builder
	fmt.Fprintf(&sb, "---- replay: generated test (run in %s with go test -tags verif -overlay) ----\n%s\n---- replay: output ----\n%s\n", pkgDir, src.String(), text)
	confirmed := false
	switch {
	case strings.Contains(text, "REPLAY-PANIC") || strings.Contains(text, "panic:") || strings.Contains(text, "fatal error"):
		if panicKinds[ob.Kind] {
			confirmed = true
			sb.WriteString("replay verdict: the real code panics on the solver's input\n")
		} else {
			sb.WriteString("replay verdict: the real code panics on the solver's input (obligation kind " + ob.Kind + " is not a panic obligation)\n")
		}
	case strings.Contains(text, "REPLAY-RETURNED"):
		if panicKinds[ob.Kind] {
			sb.WriteString("replay verdict: the real code returned normally on the solver's input: the counterexample is an artefact of the contracts (callee contracts weaker than the code) or of the model\n")
		} else {
			sb.WriteString("replay verdict: the real code ran on the solver's input and returned the value above; the obligation is a contract clause, which this harness does not evaluate in Go: compare by hand\n")
		}
	default:
		sb.WriteString("replay verdict: the test did not run (build error or timeout)\n")
	}
	_ = math.Pi
	_ = ssa.NaiveForm
	return confirmed, sb.String()
}
