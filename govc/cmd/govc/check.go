package main

import (
	"sync"
	"regexp"
	"encoding/json"
	"fmt"
	"os"
	"path/filepath"
	"sort"
	"strconv"
	"strings"
	"time"

	"govc/solve"
	"govc/vc"
)

type ledger struct {
	Property    string            `json:"property"`
	Obligations map[string]string `json:"obligations"` // name -> expected status ("unsat")
	Units       []string          `json:"units"`
}

type finding struct {
	Property   string `json:"property"`
	Obligation string `json:"obligation"` // exact obligation name, or prefix ending in '*'
	Input      string `json:"input"`
	What       string `json:"what"`
	Status     string `json:"status"` // known | fixed
	Commit     string `json:"commit,omitempty"`
}

type evidence struct {
	PropertyID  string                 `json:"property_id"`
	Tier        string                 `json:"tier"`
	Seed        int                    `json:"seed"`
	Level       string                 `json:"level"`
	Coverage    map[string]interface{} `json:"coverage"`
	Assumptions []string               `json:"assumptions"`
	WallS       float64                `json:"wall_s"`
	Violations  int                    `json:"violations"`
}

func loadLedger(prop string) *ledger {
	b, err := os.ReadFile(filepath.Join(*verifDir, "ledger", prop+".json"))
	if err != nil {
		return nil
	}
	var l ledger
	if json.Unmarshal(b, &l) != nil {
		return nil
	}
	return &l
}

func loadFindings() []finding {
	b, err := os.ReadFile(filepath.Join(*verifDir, "known_findings.json"))
	if err != nil {
		return nil
	}
	var fs struct {
		Findings []finding `json:"findings"`
	}
	json.Unmarshal(b, &fs)
	return fs.Findings
}

func matchFinding(fs []finding, prop, name string) *finding {
	for i := range fs {
		f := &fs[i]
		if f.Property != prop || f.Status != "known" {
			continue
		}
		if f.Obligation == name || (strings.HasSuffix(f.Obligation, "*") && strings.HasPrefix(name, strings.TrimSuffix(f.Obligation, "*"))) {
			return f
		}
	}
	return nil
}

// propKinds restricts a property's check to the obligation kinds that carry
// it, when its units are shared with other properties that discharge the
// rest (C10 shares the units of C11/C12/C13/C16/C20: those checks discharge
// the panic-freedom obligations; C10 is the frame/freshness view).
var propKinds = map[string]map[string]bool{
	"C10": {"frame": true, "post": true, "inv-entry": true, "inv-keep": true, "pre": true, "pre-recv": true, "cast": true, "cover": true, "lemma": true, "oncall": true},
}

var dupSuffix = regexp.MustCompile(`~[0-9]+`)

func baseName(n string) string { return dupSuffix.ReplaceAllString(n, "") }

func hasProp(ps []string, p string) bool {
	for _, q := range ps {
		if q == p {
			return true
		}
	}
	return false
}

func runCheck(p *vc.Program, prop, tier string) int {
	t0 := time.Now()
	seed, _ := strconv.Atoi(os.Getenv("VERIF_SEED"))
	if t := os.Getenv("VERIF_TIER"); t == "quick" || t == "thorough" {
		tier = t
	}
	tmo := 20
	if tier == "thorough" {
		tmo = 120
	}
	if *timeout > 0 {
		tmo = *timeout
	}
	// units for this property
	var unitKeys []string
	trusted := []string{}
	for k, c := range p.DB.Contracts {
		if !hasProp(c.Props, prop) {
			continue
		}
		if c.Trusted {
			trusted = append(trusted, k)
			continue
		}
		if c.NoVerify {
			continue
		}
		unitKeys = append(unitKeys, k)
	}
	sort.Strings(unitKeys)
	sort.Strings(trusted)
	if *listUnits {
		for _, k := range unitKeys {
			fmt.Println(k)
		}
		return 0
	}
	led := loadLedger(prop)
	findings := loadFindings()
	dir, _ := os.MkdirTemp("", "govc-"+prop)
	defer os.RemoveAll(dir)

	type unitOut struct {
		res *vc.UnitResult
	}
	var units []*vc.UnitResult
	var all []*vc.Obligation
	// generate VCs (parallel over units)
	{
		results := make([]*vc.UnitResult, len(unitKeys))
		sem := make(chan struct{}, 8)
		done := make(chan int, len(unitKeys))
		for i, k := range unitKeys {
			sem <- struct{}{}
			go func(i int, k string) {
				results[i] = p.VerifyFunc(k)
				<-sem
				done <- i
			}(i, k)
		}
		for range unitKeys {
			<-done
		}
		units = results
	}
	lemmaObs := p.VerifyLemmas(prop)
	for _, u := range units {
		for _, ob := range u.Obligations {
			if kinds, ok := propKinds[prop]; ok && !kinds[ob.Kind] {
				continue
			}
			all = append(all, ob)
		}
	}
	all = append(all, lemmaObs...)
	genS := time.Since(t0).Seconds()
	results := solveAll(all, dir, tmo, seed)
	// second chance for obligations that came back "unknown": re-run them a few at
	// a time, with three times the budget and the default seed, so that
	// machine load or an unlucky seed does not turn into an alarm
	{
		var idx []int
		for i, r := range results {
			if !r.Ob.Cover && r.Ans.Status == solve.Unknown {
				idx = append(idx, i)
			}
		}
		if len(idx) > 0 && len(idx) <= 40 {
			saved := *jobs
			*jobs = 3
			var obs []*vc.Obligation
			for _, i := range idx {
				obs = append(obs, results[i].Ob)
			}
			again := solveAll(obs, dir, 3*tmo, 0)
			*jobs = saved
			for k, i := range idx {
				if again[k].Ans.Status != solve.Unknown {
					again[k].Ans.Detail = results[i].Ans.Detail + " | retry: " + again[k].Ans.Detail
					results[i] = again[k]
				} else {
					results[i].Ans.Detail += " | retry: " + again[k].Ans.Detail
				}
			}
		}
	}

	// thorough tier: every obligation discharged by one solver is put to a second,
	// independent solver (cvc5 for z3 answers, z3 5.1 for cvc5 answers); agreement is
	// counted, a contradicting "sat" is reported as a violation (solver disagreement)
	crossAgreed, crossUnknown := 0, 0
	crossDisagree := []string{}
	if tier == "thorough" {
		type job struct{ i int }
		sem := make(chan struct{}, *jobs)
		var mu sync.Mutex
		var wg sync.WaitGroup
		for i, r := range results {
			if r.Ob.Cover || r.Ans.Status != solve.Unsat {
				continue
			}
			second := "cvc5"
			if r.Ans.Solver == "cvc5" {
				second = "z3-new"
			}
			wg.Add(1)
			sem <- struct{}{}
			go func(i int, ob *vc.Obligation, second string) {
				defer wg.Done()
				defer func() { <-sem }()
				st, _ := solve.CheckWith(dir, ob.Name, ob.Script, second, 30)
				mu.Lock()
				defer mu.Unlock()
				switch st {
				case solve.Unsat:
					crossAgreed++
				case solve.Sat:
					crossDisagree = append(crossDisagree, ob.Name+" ("+results[i].Ans.Solver+": unsat, "+second+": sat)")
				default:
					crossUnknown++
				}
			}(i, r.Ob, second)
		}
		wg.Wait()
	}

	// classify
	var violations []string
	var knownLines []string
	undecided := []string{}
	discharged, total, covers, coverBad := 0, 0, 0, 0
	bySolver := map[string]int{}
	solverSeconds := 0.0
	newLedger := &ledger{Property: prop, Obligations: map[string]string{}, Units: unitKeys}
	replayDir := filepath.Join(*verifDir, "replay", prop)
	var samples []map[string]interface{}
	knownCount := 0
	seenNow := map[string]bool{}
	type slowRec struct {
		name string
		sec  float64
		by   string
	}
	var slow []slowRec
	for _, r := range results {
		ob := r.Ob
		solverSeconds += r.Ans.Seconds
		if !ob.Cover && r.Ans.Seconds >= 5 {
			slow = append(slow, slowRec{ob.Name, r.Ans.Seconds, r.Ans.Solver})
		}
		if ob.Cover {
			covers++
			if r.Ans.Status == solve.Unsat && strings.Contains(ob.Name, "/cover#pre") {
				coverBad++
				fmt.Printf("VACUOUS: %s: assumptions are contradictory\n", ob.Name)
			}
			continue
		}
		seenNow[ob.Name] = true
		if len(samples) < 5 && r.Ans.Status == solve.Unsat {
			samples = append(samples, map[string]interface{}{"obligation": ob.Name, "kind": ob.Kind, "at": ob.Pos, "what": ob.Descr,
				"smt_bytes": len(ob.Script), "solver": r.Ans.Solver, "seconds": round3(r.Ans.Seconds), "float_model": ob.FMode})
		}
		if r.Ans.Status == solve.Unsat {
			total++
			discharged++
			bySolver[r.Ans.Solver]++
			newLedger.Obligations[ob.Name] = "unsat"
			continue
		}
		if f := matchFinding(findings, prop, ob.Name); f != nil {
			knownCount++
			knownLines = append(knownLines, fmt.Sprintf("KNOWN-FINDING: property=%s %s: %s [%s]", prop, ob.Name, f.What, f.Input))
			continue
		}
		// a second emission of the same clause at the same site (another back edge
		// or call path, suffix ~n) stands or falls with the first
		inLedger := led != nil && (led.Obligations[ob.Name] == "unsat" || led.Obligations[baseName(ob.Name)] == "unsat")
		if r.Ans.Status == solve.Unknown && !inLedger && led != nil {
			undecided = append(undecided, ob.Name+" ("+r.Ans.Detail+")")
			continue
		}
		total++
		// violation
		os.MkdirAll(replayDir, 0o755)
		rp := filepath.Join(replayDir, sanitizeName(ob.Name)+".txt")
		confirmed, rtext := tryReplay(p, ob, r.Ans, dir)
		var sb strings.Builder
		fmt.Fprintf(&sb, "property: %s\nobligation: %s\nkind: %s\nfunction under contract: %s\nsite: %s %s\nwhat: %s\nsolver outcome: %s [%s]\nin ledger as discharged: %v\n", prop, ob.Name, ob.Kind, ob.Func, ob.Site, ob.Pos, ob.Descr, r.Ans.Status, r.Ans.Detail, inLedger)
		fmt.Fprintf(&sb, "replay confirmed on real code: %v\n\n%s\n", confirmed, rtext)
		if r.Ans.Model != "" {
			fmt.Fprintf(&sb, "---- solver model (inputs) ----\n%s\n", trimModel(r.Ans.Model, ob))
		}
		fmt.Fprintf(&sb, "---- SMT script ----\n%s\n", ob.Script)
		os.WriteFile(rp, []byte(sb.String()), 0o644)
		line := fmt.Sprintf("VIOLATION property=%s replay=%s obligation=%s", prop, rp, ob.Name)
		if !confirmed {
			line += " no-failing-input-found"
		}
		violations = append(violations, line)
	}
	// units that could not be translated
	unsupported := []string{}
	for _, u := range units {
		if u.Unsupported == "" {
			continue
		}
		unsupported = append(unsupported, u.Key+": "+u.Unsupported)
		inLed := false
		if led != nil {
			for _, k := range led.Units {
				if k == u.Key {
					inLed = true
				}
			}
		}
		if strings.Contains(u.Unsupported, "spec error") {
			// the contract no longer fits the shape of the code (renamed or removed
			// local, loop or field): the contract needs maintenance; nothing is
			// concluded about the property from this unit
			undecided = append(undecided, u.Key+"/contract-drift")
			fmt.Printf("UNDECIDED: %s: contract no longer applies to the code (%s)\n", u.Key, u.Unsupported)
			continue
		}
		if inLed || led == nil {
			name := u.Key + "/translate"
			if f := matchFinding(findings, prop, name); f != nil {
				knownLines = append(knownLines, fmt.Sprintf("KNOWN-FINDING: property=%s %s: %s", prop, name, f.What))
				continue
			}
			total++
			os.MkdirAll(replayDir, 0o755)
			rp := filepath.Join(replayDir, sanitizeName(name)+".txt")
			os.WriteFile(rp, []byte(fmt.Sprintf("property: %s\nobligation: %s\nThe function under contract can no longer be translated or its contract can no longer be applied, so none of its obligations is discharged.\nreason: %s\n", prop, name, u.Unsupported)), 0o644)
			violations = append(violations, fmt.Sprintf("VIOLATION property=%s replay=%s obligation=%s no-failing-input-found", prop, rp, name))
		}
	}
	for _, dsg := range crossDisagree {
		os.MkdirAll(replayDir, 0o755)
		name := strings.SplitN(dsg, " ", 2)[0]
		rp := filepath.Join(replayDir, sanitizeName(name)+".disagree.txt")
		os.WriteFile(rp, []byte("property: "+prop+"\nobligation: "+name+"\nTwo solvers disagree on this obligation: "+dsg+"\nOne of them is wrong; the obligation is not counted as discharged.\n"), 0o644)
		violations = append(violations, fmt.Sprintf("VIOLATION property=%s replay=%s obligation=%s (solver disagreement) no-failing-input-found", prop, rp, name))
		discharged--
	}
	// ledger obligations that vanished from a unit that still translates: informational
	vanished := []string{}
	if led != nil {
		for name := range led.Obligations {
			if !seenNow[name] {
				vanished = append(vanished, name)
			}
		}
		sort.Strings(vanished)
	}
	if *ledgerUp {
		os.MkdirAll(filepath.Join(*verifDir, "ledger"), 0o755)
		b, _ := json.MarshalIndent(newLedger, "", " ")
		os.WriteFile(filepath.Join(*verifDir, "ledger", prop+".json"), b, 0o644)
	}
	// evidence
	fuc := map[string]interface{}{}
	var contracted, inlined, opaque, models, notes []string
	floatReal := []string{}
	for _, u := range units {
		contracted = append(contracted, u.Key)
		inlined = append(inlined, u.Inlined...)
		opaque = append(opaque, u.Opaque...)
		models = append(models, u.Models...)
		notes = append(notes, u.Notes...)
		if u.FloatMode == "real" && u.FloatArith {
			floatReal = append(floatReal, u.Key)
		}
	}
	fuc["contracted"] = contracted
	fuc["inlined"] = uniqS(inlined)
	fuc["opaque_callees"] = uniqS(opaque)
	fuc["trusted_contracts"] = trusted
	fuc["stdlib_models"] = uniqS(models)
	assumptions := []string{
		"T-gen: the VC generator govc (SSA to SMT translation, memory model, contract parser) is itself unverified; guarded by the must-fail / must-pass self-test corpus",
		"T-ssa: go/ssa (x/tools v0.29.0) faithfully represents the compiled program; Go compiler and runtime correct",
		"T-smt: an unsat answer from z3 4.8.12 / z3 5.1.0 / cvc5 1.0.3 is correct",
		"A-64: int/uint are 64 bits (linux/amd64)",
		"A-mem: no slice spans more than 2^48 bytes",
		"A-callback: function-typed arguments are opaque and do not write memory visible to the callee",
	}
	for _, t := range trusted {
		assumptions = append(assumptions, "trusted contract (assumed, body not verified): "+t)
	}
	for _, m := range uniqS(models) {
		assumptions = append(assumptions, "A-std: assumed model of "+m)
	}
	for _, o := range uniqS(opaque) {
		assumptions = append(assumptions, "opaque callee (result unconstrained, assumed panic-free): "+o)
	}
	for _, f := range floatReal {
		assumptions = append(assumptions, "A-real: machine arithmetic treated as mathematical in "+f)
	}
	assumptions = append(assumptions, uniqS(notes)...)
	sort.Slice(slow, func(i, j int) bool { return slow[i].sec > slow[j].sec })
	slowList := []map[string]interface{}{}
	for _, sr := range slow {
		slowList = append(slowList, map[string]interface{}{"obligation": sr.name, "seconds": round3(sr.sec), "solver": sr.by})
	}
	cov := map[string]interface{}{
		"obligations":              total,
		"discharged":               discharged,
		"checker_cmd":              fmt.Sprintf("/verif/bin/check %s %s  (govc -prop %s -tier %s; per obligation: z3-new 5.1.0 first, then race z3 4.8.12 | z3-new | cvc5 1.0.3, timeout %ds)", prop, tier, prop, tier, tmo),
		"trusted_base":             []string{"govc (this generator)", "golang.org/x/tools/go/ssa v0.29.0", "z3 4.8.12", "z3 5.1.0", "cvc5 1.0.3", "Go 1.23.5 toolchain"},
		"functions_under_contract": fuc,
		"units":                    len(units),
		"by_solver":                bySolver,
		"solver_seconds":           round3(solverSeconds),
		"vc_generation_seconds":    round3(genS),
		"cover_checks":             covers,
		"cover_checks_vacuous":     coverBad,
		"undecided":                undecided,
		"unsupported_units":        unsupported,
		"known_findings":           knownCount,
		"ledger_obligations_absent_now": len(vanished),
		"samples":                  samples,
		"slow_obligations_5s":      slowList,
		"second_solver_agreed":     crossAgreed,
		"second_solver_undecided":  crossUnknown,
		"second_solver_disagreed":  crossDisagree,
		"exhaustive":               false,
	}
	ev := evidence{PropertyID: prop, Tier: tier, Seed: seed, Level: "proof", Coverage: cov, Assumptions: assumptions,
		WallS: round3(time.Since(t0).Seconds()), Violations: len(violations)}
	os.MkdirAll(filepath.Join(*verifDir, "evidence"), 0o755)
	b, _ := json.MarshalIndent(ev, "", " ")
	os.WriteFile(filepath.Join(*verifDir, "evidence", prop+".json"), b, 0o644)

	for _, l := range knownLines {
		fmt.Println(l)
	}
	for _, u := range undecided {
		fmt.Println("UNDECIDED:", u)
	}
	for _, u := range unsupported {
		fmt.Println("UNSUPPORTED:", u)
	}
	for _, v := range violations {
		fmt.Println(v)
	}
	fmt.Printf("%s %s: %d units, %d obligations, %d discharged, %d known findings, %d undecided, %d violations, %.1fs\n",
		prop, tier, len(units), total, discharged, knownCount, len(undecided), len(violations), time.Since(t0).Seconds())
	if total == 0 {
		fmt.Println("ERROR: zero obligations generated (vacuous run)")
		return 2
	}
	if len(violations) > 0 {
		return 1
	}
	return 0
}

func round3(f float64) float64 { return float64(int(f*1000+0.5)) / 1000 }

func uniqS(in []string) []string {
	m := map[string]bool{}
	out := []string{}
	for _, s := range in {
		if !m[s] {
			m[s] = true
			out = append(out, s)
		}
	}
	sort.Strings(out)
	return out
}

func sanitizeName(s string) string {
	var sb strings.Builder
	for _, r := range s {
		if (r >= 'a' && r <= 'z') || (r >= 'A' && r <= 'Z') || (r >= '0' && r <= '9') || r == '-' || r == '_' || r == '.' || r == '#' || r == '@' {
			sb.WriteRune(r)
		} else {
			sb.WriteByte('_')
		}
	}
	return sb.String()
}
