package main

import "govc/vc"

func runCheck(p *vc.Program, prop, tier string) int { return 2 }
