package vc

import (
	"bufio"
	"fmt"
	"os"
	"path/filepath"
	"sort"
	"strconv"
	"strings"
	"unicode"
	"unicode/utf8"
)

// ---------- spec expression AST ----------

type SExpr interface{ String() string }

type (
	SNum   struct{ V string }
	SIdent struct{ Name string }
	SBin   struct {
		Op   string
		L, R SExpr
	}
	SUn struct {
		Op string
		X  SExpr
	}
	SField struct {
		X    SExpr
		Name string
	}
	SIndex struct{ X, I SExpr }
	SSlice struct{ X, Lo, Hi SExpr }
	SCall  struct {
		Fn     string
		Args   []SExpr
		Method bool // Args[0] is the receiver
	}
	SQuant struct {
		Forall bool
		Vars   []string
		Types  []string // optional type names ("" = Int)
		Body   SExpr
	}
	SOld struct{ X SExpr }
)

func (e *SNum) String() string   { return e.V }
func (e *SIdent) String() string { return e.Name }
func (e *SBin) String() string   { return "(" + e.L.String() + " " + e.Op + " " + e.R.String() + ")" }
func (e *SUn) String() string    { return e.Op + e.X.String() }
func (e *SField) String() string { return e.X.String() + "." + e.Name }
func (e *SIndex) String() string { return e.X.String() + "[" + e.I.String() + "]" }
func (e *SSlice) String() string { return e.X.String() + "[..]" }
func (e *SCall) String() string {
	var as []string
	for _, a := range e.Args {
		as = append(as, a.String())
	}
	return e.Fn + "(" + strings.Join(as, ", ") + ")"
}
func (e *SQuant) String() string {
	q := "exists "
	if e.Forall {
		q = "forall "
	}
	return "(" + q + strings.Join(e.Vars, ",") + " :: " + e.Body.String() + ")"
}
func (e *SOld) String() string { return "old(" + e.X.String() + ")" }

// ---------- lexer ----------

type tok struct {
	k string // "num","id","op","eof"
	v string
}

func lexSpec(src string) ([]tok, error) {
	var out []tok
	i := 0
	for i < len(src) {
		c := src[i]
		switch {
		case c == ' ' || c == '\t' || c == '\n':
			i++
		case unicode.IsDigit(rune(c)):
			j := i
			for j < len(src) && (unicode.IsDigit(rune(src[j])) || src[j] == '.' || src[j] == 'x' || src[j] == 'e' ||
				(src[j] >= 'a' && src[j] <= 'f') || (src[j] >= 'A' && src[j] <= 'F') ||
				((src[j] == '-' || src[j] == '+') && j > i && (src[j-1] == 'e') && !strings.HasPrefix(src[i:j], "0x"))) {
				j++
			}
			out = append(out, tok{"num", src[i:j]})
			i = j
		case unicode.IsLetter(rune(c)) || c == '_' || c == '$' || c >= 0x80:
			j := i
			for j < len(src) {
				r, sz := utf8.DecodeRuneInString(src[j:])
				if unicode.IsLetter(r) || unicode.IsDigit(r) || r == '_' || r == '$' {
					j += sz
					continue
				}
				break
			}
			if j == i {
				return nil, fmt.Errorf("spec: unexpected character %q in %q", c, src)
			}
			out = append(out, tok{"id", src[i:j]})
			i = j
		default:
			ops := []string{"<==>", "==>", "::", "==", "!=", "<=", ">=", "&&", "||", "<", ">", "+", "-", "*", "/", "%", "!", "(", ")", "[", "]", ".", ",", ":"}
			found := false
			for _, op := range ops {
				if strings.HasPrefix(src[i:], op) {
					out = append(out, tok{"op", op})
					i += len(op)
					found = true
					break
				}
			}
			if !found {
				return nil, fmt.Errorf("spec: unexpected character %q in %q", c, src)
			}
		}
	}
	out = append(out, tok{"eof", ""})
	return out, nil
}

type sparser struct {
	toks []tok
	p    int
	src  string
}

func ParseSpecExpr(src string) (e SExpr, err error) {
	toks, err := lexSpec(src)
	if err != nil {
		return nil, err
	}
	ps := &sparser{toks: toks, src: src}
	defer func() {
		if r := recover(); r != nil {
			if s, ok := r.(specErr); ok {
				err = fmt.Errorf("%s in %q", string(s), src)
				return
			}
			panic(r)
		}
	}()
	e = ps.expr()
	if ps.peek().k != "eof" {
		ps.fail("trailing tokens at " + ps.peek().v)
	}
	return e, nil
}

type specErr string

func (p *sparser) fail(m string)  { panic(specErr("spec parse: " + m)) }
func (p *sparser) peek() tok      { return p.toks[p.p] }
func (p *sparser) next() tok      { t := p.toks[p.p]; p.p++; return t }
func (p *sparser) isOp(v string) bool { t := p.peek(); return t.k == "op" && t.v == v }
func (p *sparser) expect(v string) {
	if !p.isOp(v) {
		p.fail("expected " + v + " got " + p.peek().v)
	}
	p.p++
}

func (p *sparser) expr() SExpr {
	t := p.peek()
	if t.k == "id" && (t.v == "forall" || t.v == "exists") {
		p.p++
		var vars, tys []string
		for {
			v := p.next()
			if v.k != "id" {
				p.fail("expected bound variable")
			}
			vars = append(vars, v.v)
			ty := ""
			if p.isOp(":") {
				p.p++
				tt := p.next()
				if tt.k != "id" {
					p.fail("expected type name")
				}
				ty = tt.v
				if p.isOp(".") {
					p.p++
					t2 := p.next()
					ty += "." + t2.v
				}
			}
			tys = append(tys, ty)
			if p.isOp(",") {
				p.p++
				continue
			}
			break
		}
		p.expect("::")
		body := p.expr()
		return &SQuant{Forall: t.v == "forall", Vars: vars, Types: tys, Body: body}
	}
	return p.impl()
}

func (p *sparser) impl() SExpr {
	l := p.or()
	if p.isOp("==>") {
		p.p++
		r := p.implOrQuant()
		return &SBin{"==>", l, r}
	}
	if p.isOp("<==>") {
		p.p++
		r := p.implOrQuant()
		return &SBin{"<==>", l, r}
	}
	return l
}

func (p *sparser) implOrQuant() SExpr {
	t := p.peek()
	if t.k == "id" && (t.v == "forall" || t.v == "exists") {
		return p.expr()
	}
	return p.impl()
}

func (p *sparser) or() SExpr {
	l := p.and()
	for p.isOp("||") {
		p.p++
		r := p.and()
		l = &SBin{"||", l, r}
	}
	return l
}

func (p *sparser) and() SExpr {
	l := p.cmp()
	for p.isOp("&&") {
		p.p++
		r := p.cmp()
		l = &SBin{"&&", l, r}
	}
	return l
}

func (p *sparser) cmp() SExpr {
	first := p.add()
	var res SExpr
	l := first
	for {
		t := p.peek()
		if t.k == "op" && (t.v == "==" || t.v == "!=" || t.v == "<" || t.v == "<=" || t.v == ">" || t.v == ">=") {
			p.p++
			r := p.add()
			c := &SBin{t.v, l, r}
			if res == nil {
				res = c
			} else {
				res = &SBin{"&&", res, c}
			}
			l = r
			continue
		}
		break
	}
	if res == nil {
		return first
	}
	return res
}

func (p *sparser) add() SExpr {
	l := p.mul()
	for p.isOp("+") || p.isOp("-") {
		op := p.next().v
		r := p.mul()
		l = &SBin{op, l, r}
	}
	return l
}

func (p *sparser) mul() SExpr {
	l := p.unary()
	for p.isOp("*") || p.isOp("/") || p.isOp("%") {
		op := p.next().v
		r := p.unary()
		l = &SBin{op, l, r}
	}
	return l
}

func (p *sparser) unary() SExpr {
	if p.isOp("!") {
		p.p++
		return &SUn{"!", p.unary()}
	}
	if p.isOp("-") {
		p.p++
		return &SUn{"-", p.unary()}
	}
	return p.postfix()
}

func (p *sparser) postfix() SExpr {
	e := p.primary()
	for {
		switch {
		case p.isOp("."):
			p.p++
			t := p.next()
			if t.k != "id" && t.k != "num" {
				p.fail("expected field name")
			}
			if p.isOp("(") && t.k == "id" {
				p.p++
				args := []SExpr{e}
				for !p.isOp(")") {
					args = append(args, p.expr())
					if p.isOp(",") {
						p.p++
					}
				}
				p.expect(")")
				e = &SCall{Fn: t.v, Args: args, Method: true}
				continue
			}
			e = &SField{e, t.v}
		case p.isOp("["):
			p.p++
			var lo, hi SExpr
			if p.isOp(":") {
				p.p++
				if !p.isOp("]") {
					hi = p.expr()
				}
				p.expect("]")
				e = &SSlice{e, nil, hi}
				continue
			}
			lo = p.expr()
			if p.isOp(":") {
				p.p++
				if !p.isOp("]") {
					hi = p.expr()
				}
				p.expect("]")
				e = &SSlice{e, lo, hi}
				continue
			}
			p.expect("]")
			e = &SIndex{e, lo}
		default:
			return e
		}
	}
}

func (p *sparser) primary() SExpr {
	t := p.next()
	switch t.k {
	case "num":
		return &SNum{t.v}
	case "id":
		if p.isOp("(") {
			p.p++
			var args []SExpr
			for !p.isOp(")") {
				args = append(args, p.expr())
				if p.isOp(",") {
					p.p++
				}
			}
			p.expect(")")
			if t.v == "old" {
				if len(args) != 1 {
					p.fail("old takes one argument")
				}
				return &SOld{args[0]}
			}
			return &SCall{Fn: t.v, Args: args}
		}
		return &SIdent{t.v}
	case "op":
		if t.v == "(" {
			e := p.expr()
			p.expect(")")
			return e
		}
	}
	p.fail("unexpected token " + t.v)
	return nil
}

// ---------- contract files ----------

type Clause struct {
	Expr SExpr
	Src  string
	Name string // optional label
	Line int
	File string
}

type LoopSpec struct {
	Invariants []*Clause
	Assumes    []*Clause // assumed at the loop head, NOT checked (listed as assumptions)
	Decreases  *Clause
}

type Contract struct {
	Key        string // e.g. "geom.(*wkbParser).parseUint32"
	Pkg        string
	Mode       string // "", "ieee", "real"
	Requires   []*Clause
	Ensures    []*Clause
	Modifies   []*Clause
	AllocBound *Clause
	Loops      map[int]*LoopSpec
	Trusted    bool // body not verified; contract assumed
	NoVerify   bool
	Props      []string
	Pure       bool // no heap writes (checked by frame); informational
	Opaque     []string
	Inline     bool   // force inlining at call sites even though it has an entry
	Split      string // parameter name to enum-split on
	SplitVals  []string
	File       string
	Line       int
	Ghost      []string
	Timeout    int
	OnCalls    map[string]*OnCall
	Auto       bool // generated by a sweep directive: uncontracted callees are opaque, never inlined
	NoTypeInv  bool
	InlineCallees map[string]bool // callees (by name) inlined in this unit instead of using their contract
	NoUnfold map[string]bool // recursive spec functions that stay folded in this unit (their definition is not needed)
	AbstractPtrs bool // escaping interior pointers become unknown pointers
	NoSafety   bool // safety obligations (index, nil, slice, ...) of this unit are not emitted: not decided
	OvfCheck   bool
	WrapArith  bool // signed + - * follow Go's wrap-around exactly (no overflow obligations, no no-overflow assumption)
	Defines    []*Clause // naming clauses: assumed by callers, not checked in the body (the function is deterministic)
	Unreachable map[string]string // obligation suffix (e.g. panic#0) -> reason: assumed unreachable, listed
	AssumeInv  bool // type-invariant postconditions of this unit are assumed, not proved (listed)
}

type Pred struct {
	Name   string
	Params []string
	Body   SExpr
	Src    string
	Rec    bool
	Ret    string // recfun: "float" or "int"; "" for predicates
	Masked bool   // recfun evaluated over the heaps restricted to the regions that existed at the boundary (function entry / call time)
}

type OnCall struct {
	Requires []*Clause
	Ensures  []*Clause
}

type Lemma struct {
	Name  string
	Pkg   string
	Body  SExpr
	Src   string
	Props []string
	Mode  string
	File  string
	Line  int
}

type SweepSpec struct {
	Pkg     string
	Pattern string
	Props   []string
	Exclude []string
}

type TypeInv struct {
	Pkg  string
	Type string
	Pred string
}

type SpecDB struct {
	Contracts map[string]*Contract
	Preds     map[string]*Pred
	Lemmas    []*Lemma
	Files     []string
	Sweeps    []*SweepSpec
	TypeInvs  []*TypeInv
}

var clauseKeywords = map[string]bool{"func": true, "requires": true, "ensures": true, "modifies": true, "allocbound": true,
	"loop": true, "mode": true, "trusted": true, "prop": true, "pred": true, "lemma": true, "pure": true, "inline": true,
	"split": true, "noverify": true, "ghost": true, "timeout": true, "opaque": true, "recpred": true, "recfun": true, "oncall": true, "sweep": true, "typeinv": true, "notypeinv": true, "abstractptrs": true, "nounfold": true, "inlinecallees": true, "nosafety": true, "ovfcheck": true, "assumeinv": true, "defines": true, "assume-unreachable": true, "wraparith": true}

// LoadSpecs parses every verif_contracts*.go in dir (package name pkg).
func LoadSpecs(db *SpecDB, dir, pkg string) error {
	files, _ := filepath.Glob(filepath.Join(dir, "verif_contracts*.go"))
	sort.Strings(files)
	for _, f := range files {
		if err := loadSpecFile(db, f, pkg); err != nil {
			return err
		}
		db.Files = append(db.Files, f)
	}
	return nil
}

func loadSpecFile(db *SpecDB, file, pkg string) error {
	fh, err := os.Open(file)
	if err != nil {
		return err
	}
	defer fh.Close()
	sc := bufio.NewScanner(fh)
	sc.Buffer(make([]byte, 1<<20), 1<<20)
	type rawLine struct {
		text string
		line int
		top  bool // written flush after "//@ " (a file-level directive), not indented under a func
	}
	var lines []rawLine
	ln := 0
	for sc.Scan() {
		ln++
		t := strings.TrimSpace(sc.Text())
		if !strings.HasPrefix(t, "//@") {
			continue
		}
		top := !strings.HasPrefix(t[3:], "  ") && !strings.HasPrefix(t[3:], "\t")
		t = strings.TrimSpace(t[3:])
		if t == "" {
			continue
		}
		// strip trailing comment " // ..."
		if i := strings.Index(t, " // "); i >= 0 {
			t = strings.TrimSpace(t[:i])
		}
		first := t
		if i := strings.IndexAny(t, " \t"); i >= 0 {
			first = t[:i]
		}
		if !clauseKeywords[first] && len(lines) > 0 {
			lines[len(lines)-1].text += " " + t
			continue
		}
		lines = append(lines, rawLine{t, ln, top})
	}
	var cur *Contract
	var curProps []string
	for _, rl := range lines {
		t := rl.text
		kw := t
		rest := ""
		if i := strings.IndexAny(t, " \t"); i >= 0 {
			kw = t[:i]
			rest = strings.TrimSpace(t[i+1:])
		}
		mk := func(src string) (*Clause, error) {
			name := ""
			// optional label: "name: expr" where name is identifier followed by ": " (not "::")
			if i := strings.Index(src, ": "); i > 0 && !strings.Contains(src[:i], " ") && !strings.HasPrefix(src[i:], "::") && isIdent(src[:i]) {
				name = src[:i]
				src = strings.TrimSpace(src[i+2:])
			}
			e, err := ParseSpecExpr(src)
			if err != nil {
				return nil, fmt.Errorf("%s:%d: %v", file, rl.line, err)
			}
			return &Clause{Expr: e, Src: src, Name: name, Line: rl.line, File: file}, nil
		}
		switch kw {
		case "prop":
			ps := splitComma(rest)
			if cur == nil || rl.top {
				// file-level: applies to the entries that follow
				cur = nil
				curProps = ps
			} else {
				cur.Props = ps
			}
		case "sweep":
			cur = nil
			fs := strings.Fields(rest)
			sw := &SweepSpec{Pkg: pkg, Pattern: fs[0], Props: curProps}
			for _, f := range fs[1:] {
				if strings.HasPrefix(f, "-") {
					sw.Exclude = append(sw.Exclude, f[1:])
				}
			}
			db.Sweeps = append(db.Sweeps, sw)
		case "typeinv":
			cur = nil
			fs := strings.Fields(rest)
			if len(fs) != 2 {
				return fmt.Errorf("%s:%d: typeinv Type Pred", file, rl.line)
			}
			db.TypeInvs = append(db.TypeInvs, &TypeInv{Pkg: pkg, Type: fs[0], Pred: fs[1]})
		case "func":
			key := pkg + "." + rest
			if _, dup := db.Contracts[key]; dup {
				return fmt.Errorf("%s:%d: duplicate contract for %s", file, rl.line, key)
			}
			cur = &Contract{Key: key, Pkg: pkg, Loops: map[int]*LoopSpec{}, File: file, Line: rl.line, Props: curProps}
			db.Contracts[key] = cur
		case "pred", "recpred", "recfun":
			cur = nil
			// pred Name(a, b) = expr
			i := strings.Index(rest, "(")
			j := strings.Index(rest, ")")
			k := strings.Index(rest, "=")
			if i < 0 || j < i || k < j {
				return fmt.Errorf("%s:%d: bad pred", file, rl.line)
			}
			name := strings.TrimSpace(rest[:i])
			params := splitComma(rest[i+1 : j])
			e, err := ParseSpecExpr(rest[k+1:])
			if err != nil {
				return fmt.Errorf("%s:%d: %v", file, rl.line, err)
			}
			ret := ""
			masked := false
			if kw == "recfun" {
				// recfun Name(a, b): float = expr   (recursive spec function with a numeric value)
				ret = strings.TrimSpace(strings.TrimPrefix(strings.TrimSpace(rest[j+1:k]), ":"))
				if strings.HasSuffix(ret, " masked") {
					ret = strings.TrimSpace(strings.TrimSuffix(ret, " masked"))
					masked = true
				}
				if ret != "float" && ret != "int" {
					return fmt.Errorf("%s:%d: recfun needs a result sort (float or int)", file, rl.line)
				}
			}
			db.Preds[name] = &Pred{Name: name, Params: params, Body: e, Src: rest[k+1:], Rec: kw != "pred", Ret: ret, Masked: masked}
		case "lemma":
			cur = nil
			i := strings.Index(rest, ":")
			if i < 0 {
				return fmt.Errorf("%s:%d: bad lemma", file, rl.line)
			}
			hdr := strings.Fields(rest[:i])
			name := hdr[0]
			mode := ""
			for _, h := range hdr[1:] {
				if strings.HasPrefix(h, "mode=") {
					mode = h[5:]
				}
			}
			e, err := ParseSpecExpr(rest[i+1:])
			if err != nil {
				return fmt.Errorf("%s:%d: %v", file, rl.line, err)
			}
			db.Lemmas = append(db.Lemmas, &Lemma{Name: name, Pkg: pkg, Body: e, Src: strings.TrimSpace(rest[i+1:]), Props: curProps, Mode: mode, File: file, Line: rl.line})
		default:
			if cur == nil {
				return fmt.Errorf("%s:%d: clause %q outside func", file, rl.line, kw)
			}
			switch kw {
			case "mode":
				cur.Mode = rest
			case "trusted":
				cur.Trusted = true
			case "noverify":
				cur.NoVerify = true
			case "pure":
				cur.Pure = true
			case "notypeinv":
				cur.NoTypeInv = true
			case "inlinecallees":
				if cur.InlineCallees == nil {
					cur.InlineCallees = map[string]bool{}
				}
				for _, n := range strings.Fields(rest) {
					cur.InlineCallees[n] = true
				}
			case "nounfold":
				if cur.NoUnfold == nil {
					cur.NoUnfold = map[string]bool{}
				}
				for _, n := range strings.Fields(rest) {
					cur.NoUnfold[n] = true
				}
			case "abstractptrs":
				cur.AbstractPtrs = true
			case "nosafety":
				cur.NoSafety = true
			case "ovfcheck":
				cur.OvfCheck = true
			case "wraparith":
				cur.WrapArith = true
			case "assumeinv":
				cur.AssumeInv = true
			case "inline":
				cur.Inline = true
			case "opaque":
				cur.Opaque = append(cur.Opaque, splitComma(rest)...)
			case "ghost":
				cur.Ghost = append(cur.Ghost, splitComma(rest)...)
			case "timeout":
				cur.Timeout, _ = strconv.Atoi(rest)
			case "oncall":
				// oncall <param> requires|ensures <expr>
				fs := strings.SplitN(rest, " ", 3)
				if len(fs) < 3 {
					return fmt.Errorf("%s:%d: bad oncall clause", file, rl.line)
				}
				if cur.OnCalls == nil {
					cur.OnCalls = map[string]*OnCall{}
				}
				oc := cur.OnCalls[fs[0]]
				if oc == nil {
					oc = &OnCall{}
					cur.OnCalls[fs[0]] = oc
				}
				c, err := mk(strings.TrimSpace(fs[2]))
				if err != nil {
					return err
				}
				switch fs[1] {
				case "requires":
					oc.Requires = append(oc.Requires, c)
				case "ensures":
					oc.Ensures = append(oc.Ensures, c)
				default:
					return fmt.Errorf("%s:%d: bad oncall kind", file, rl.line)
				}
			case "split":
				fs := strings.Fields(rest)
				cur.Split = fs[0]
				cur.SplitVals = fs[1:]
			case "assume-unreachable":
				fs := strings.SplitN(rest, " ", 2)
				if cur.Unreachable == nil {
					cur.Unreachable = map[string]string{}
				}
				reason := ""
				if len(fs) > 1 {
					reason = fs[1]
				}
				cur.Unreachable[fs[0]] = reason
			case "defines":
				c, err := mk(rest)
				if err != nil {
					return err
				}
				cur.Defines = append(cur.Defines, c)
			case "requires", "ensures", "allocbound":
				c, err := mk(rest)
				if err != nil {
					return err
				}
				switch kw {
				case "requires":
					cur.Requires = append(cur.Requires, c)
				case "ensures":
					cur.Ensures = append(cur.Ensures, c)
				case "allocbound":
					cur.AllocBound = c
				}
			case "modifies":
				for _, part := range splitComma(rest) {
					c, err := mk(part)
					if err != nil {
						return err
					}
					cur.Modifies = append(cur.Modifies, c)
				}
			case "loop":
				fs := strings.SplitN(rest, " ", 3)
				if len(fs) < 3 {
					return fmt.Errorf("%s:%d: bad loop clause", file, rl.line)
				}
				k, err := strconv.Atoi(fs[0])
				if err != nil {
					return fmt.Errorf("%s:%d: bad loop ordinal", file, rl.line)
				}
				ls := cur.Loops[k]
				if ls == nil {
					ls = &LoopSpec{}
					cur.Loops[k] = ls
				}
				c, err := mk(strings.TrimSpace(fs[2]))
				if err != nil {
					return err
				}
				switch fs[1] {
				case "invariant":
					ls.Invariants = append(ls.Invariants, c)
				case "decreases":
					ls.Decreases = c
				case "assume":
					ls.Assumes = append(ls.Assumes, c)
				default:
					return fmt.Errorf("%s:%d: bad loop clause kind %s", file, rl.line, fs[1])
				}
			}
		}
	}
	return nil
}

func isIdent(s string) bool {
	if s == "" {
		return false
	}
	for i, r := range s {
		if !(unicode.IsLetter(r) || r == '_' || (i > 0 && (unicode.IsDigit(r) || r == '-' || r == '#'))) {
			return false
		}
	}
	return true
}

func splitComma(s string) []string {
	var out []string
	depth := 0
	start := 0
	for i, c := range s {
		switch c {
		case '(', '[':
			depth++
		case ')', ']':
			depth--
		case ',':
			if depth == 0 {
				if t := strings.TrimSpace(s[start:i]); t != "" {
					out = append(out, t)
				}
				start = i + 1
			}
		}
	}
	if t := strings.TrimSpace(s[start:]); t != "" {
		out = append(out, t)
	}
	return out
}

func NewSpecDB() *SpecDB {
	return &SpecDB{Contracts: map[string]*Contract{}, Preds: map[string]*Pred{}}
}
