package vc

import (
	"fmt"
	"go/constant"
	"go/token"
	"go/types"
	"sort"
	"strings"

	"golang.org/x/tools/go/ssa"
)

// Obligation is one proof obligation, self-contained as an SMT script.
type Obligation struct {
	Name    string
	Kind    string
	Func    string // function under contract this belongs to
	Site    string // function containing the site (differs when inlined)
	Pos     string
	Script  string // full SMT-LIB text ending in (check-sat)
	Goal    string
	Props   []string
	Cover   bool // cover query: expected SAT (vacuity guard)
	Model   string
	Descr   string
	Inputs  []InputVar
	FMode   string
	Timeout int
}

// InputVar names an SMT constant that is an input of the function (for replay).
type InputVar struct {
	Name string // Go parameter path, e.g. "wkb" or "p.body"
	Term string
	Type string
}

type Frame struct {
	id        int
	fn        *ssa.Function
	env       map[ssa.Value]Val
	depth     int
	parent    *Frame
	heapLocal map[*ssa.Alloc]string // escaping locals: region term
	inlinePath string
}

func (fr *Frame) allocsByName(name string) []*ssa.Alloc {
	var out []*ssa.Alloc
	for _, b := range fr.fn.Blocks {
		for _, in := range b.Instrs {
			if a, ok := in.(*ssa.Alloc); ok && a.Comment == name {
				out = append(out, a)
			}
		}
	}
	sort.Slice(out, func(i, j int) bool { return out[i].Pos() < out[j].Pos() })
	return out
}

// Exec verifies one function (one "verification unit").
type Exec struct {
	prog       *ssa.Program
	db         *SpecDB
	S          *Script
	te         *TypeEnv
	root       *ssa.Function
	rootKey    string
	contract   *Contract
	obls       []*Obligation
	entryHeaps map[string]string
	heapTypes  map[string]types.Type
	ghostSorts map[string]string
	nextFrame  int
	obCount    map[string]int
	siteOrd    map[*ssa.Function]map[ssa.Instruction]int
	loopCache  map[*ssa.Function]*loopInfo
	Notes      []string // assumptions, opaque callees etc.
	noteSeen   map[string]bool
	entry      *State
	rf         string // skolem region for frame conditions
	rootExits  []exitRec
	maskTerms  map[string]bool // heap terms that are already masks
	maskKeys   map[string]bool // heap keys for which a masked recursive function is in use
	enclosing  map[string]Val // unconstrained stand-ins for enclosing-function variables named in a closure contract
	modRegs    []modReg // regions named by the root's modifies clause, with their heap
	inputs     []InputVar
	quiet      int // >0: suppress obligations (spec-side inlining)
	stack      []*ssa.Function
	strlits    map[string]string
	globals    map[string]Val
	usedFloatArith bool
	faCount        int // float-arithmetic operations translated so far (code and spec)
	MaxInline  int
	splitCase  string
	fset       *token.FileSet
	allocBound *Clause
	rootFrame  *Frame
	rootArgs   map[string]Val
	writeCache map[*ssa.Function]*writeSet
	recDefs    map[string]*recDef
	hverCounter int
	smallCache map[*ssa.Function]bool
	unfolded   map[string]bool
	pendingFacts []string
	inlined, opaque, usedContracts, modelsUsed map[string]bool
}

func (x *Exec) note(s string) {
	if x.noteSeen == nil {
		x.noteSeen = map[string]bool{}
	}
	if !x.noteSeen[s] {
		x.noteSeen[s] = true
		x.Notes = append(x.Notes, s)
	}
}

// FuncKey returns the contract key for an ssa function: pkgname.(Recv).Name
func FuncKey(fn *ssa.Function) string {
	pkg := ""
	if fn.Pkg != nil {
		pkg = fn.Pkg.Pkg.Name()
	} else if fn.Parent() != nil {
		return FuncKey(fn.Parent()) + "$" + fn.Name()
	}
	if fn.Parent() != nil {
		return FuncKey(fn.Parent()) + "$" + strings.TrimPrefix(fn.Name(), fn.Parent().Name()+"$")
	}
	if fn.Signature.Recv() != nil {
		rt := fn.Signature.Recv().Type()
		s := types.TypeString(rt, func(*types.Package) string { return "" })
		if _, ok := rt.(*types.Pointer); ok {
			return pkg + ".(" + s + ")." + fn.Name()
		}
		return pkg + "." + s + "." + fn.Name()
	}
	return pkg + "." + fn.Name()
}

func (x *Exec) posOf(p token.Pos) string {
	if p == token.NoPos {
		return ""
	}
	pp := x.fset.Position(p)
	return fmt.Sprintf("%s:%d", pp.Filename, pp.Line)
}

// ---------- obligations ----------

func (x *Exec) siteOrdinal(fn *ssa.Function, in ssa.Instruction, class string) int {
	if x.siteOrd == nil {
		x.siteOrd = map[*ssa.Function]map[ssa.Instruction]int{}
	}
	m, ok := x.siteOrd[fn]
	if !ok {
		m = map[ssa.Instruction]int{}
		counts := map[string]int{}
		for _, b := range fn.Blocks {
			for _, i := range b.Instrs {
				c := instrClass(i)
				if c == "" {
					continue
				}
				m[i] = counts[c]
				counts[c]++
			}
		}
		x.siteOrd[fn] = m
	}
	return m[in]
}

func instrClass(i ssa.Instruction) string {
	switch v := i.(type) {
	case *ssa.IndexAddr, *ssa.Index:
		return "idx"
	case *ssa.Slice:
		return "slice"
	case *ssa.MakeSlice:
		return "make"
	case *ssa.Panic:
		return "panic"
	case *ssa.TypeAssert:
		return "assert"
	case *ssa.Convert:
		return "conv"
	case *ssa.BinOp:
		switch v.Op {
		case token.QUO, token.REM:
			return "div"
		case token.ADD, token.SUB, token.MUL, token.SHL:
			return "arith"
		}
		return ""
	case *ssa.UnOp:
		if v.Op == token.MUL {
			return "load"
		}
		return ""
	case *ssa.Store:
		return "store"
	case *ssa.FieldAddr:
		return "fieldaddr"
	case *ssa.Call:
		return "call"
	case *ssa.Lookup:
		return "idx"
	}
	return ""
}

// oblige emits an obligation that goal holds in st, then assumes it.
func (x *Exec) oblige(st *State, fr *Frame, in ssa.Instruction, kind, goal, descr string) {
	if x.quiet > 0 {
		return
	}
	if goal == "true" || st.pc == "false" {
		return
	}
	var pos token.Pos
	if in != nil {
		pos = in.Pos()
	}
	name := x.rootKey + "/" + kind
	site := x.rootKey
	if fr != nil {
		ord := 0
		if in != nil {
			ord = x.siteOrdinal(fr.fn, in, kind)
		}
		name = fmt.Sprintf("%s/%s#%d", x.rootKey, kind, ord)
		if fr.fn != x.root {
			site = FuncKey(fr.fn)
			name += "@" + site
		}
	}
	if x.contract != nil && x.contract.Unreachable != nil && fr != nil && fr.fn == x.root {
		suffix := name[strings.LastIndex(name, "/")+1:]
		if reason, ok := x.contract.Unreachable[suffix]; ok {
			x.note("ASSUMED unreachable (not proved) in " + x.rootKey + ": " + suffix + " — " + reason)
			x.assume(st, goal)
			return
		}
	}
	if x.contract != nil && x.contract.NoSafety && safetyKinds[kind] {
		// abstraction mode: this unit's safety obligations are not decided; the
		// run continues under the assumption that the operation does not fault
		x.note("safety obligations of " + x.rootKey + " are NOT decided (directive nosafety): only its frame, protocol and postconditions are")
		x.assume(st, goal)
		return
	}
	x.emit(st, name, kind, site, pos, goal, descr)
	x.assume(st, goal)
}

func (x *Exec) emit(st *State, name, kind, site string, pos token.Pos, goal, descr string) {
	if x.obCount == nil {
		x.obCount = map[string]int{}
	}
	if x.splitCase != "" {
		name += "/" + x.splitCase
	}
	x.obCount[name]++
	if n := x.obCount[name]; n > 1 {
		name = fmt.Sprintf("%s~%d", name, n)
	}
	x.flushFacts(st)
	g := x.S.Define("goal", "Bool", goal)
	body := x.S.Slice(st.pc, g)
	var sb strings.Builder
	sb.WriteString(body)
	fmt.Fprintf(&sb, "(assert %s)\n(assert (not %s))\n(check-sat)\n", st.pc, g)
	fm := "ieee"
	if x.te.FMode == FloatReal {
		fm = "real"
	}
	ob := &Obligation{Name: name, Kind: kind, Func: x.rootKey, Site: site, Pos: x.posOf(pos), Script: sb.String(), Goal: goal, Descr: descr, FMode: fm}
	if x.contract != nil {
		ob.Props = x.contract.Props
		ob.Timeout = x.contract.Timeout
	}
	ob.Inputs = x.inputs
	x.obls = append(x.obls, ob)
}

// cover emits a vacuity guard: pc must be satisfiable.
func (x *Exec) cover(st *State, name string) {
	if x.quiet > 0 {
		return
	}
	if x.splitCase != "" {
		name += "/" + x.splitCase
	}
	body := x.S.Slice(st.pc)
	ob := &Obligation{Name: x.rootKey + "/cover#" + name, Kind: "cover", Func: x.rootKey, Site: x.rootKey, Cover: true,
		Script: body + fmt.Sprintf("(assert %s)\n(check-sat)\n", st.pc)}
	if x.contract != nil {
		ob.Props = x.contract.Props
	}
	x.obls = append(x.obls, ob)
}

type modReg struct{ reg, key string }

var safetyKinds = map[string]bool{"idx": true, "nil": true, "slice": true, "make": true, "shift": true, "assert": true, "cast": true, "div": true, "div0": true, "conv": true, "alloc": true, "fdiv": true, "ovf": true, "pre": true, "pre-recv": true}

// ---------- values ----------

func (x *Exec) wfAssume(st *State, v Val) {
	if v.T == nil || v.DP != nil || v.Clo != nil || v.Fn != nil || v.Tup != nil {
		return
	}
	c := x.wf(v.S, v.T, st, 0)
	x.assume(st, c)
}

// wf is the well-formedness (type invariant of the memory model) of a term.
func (x *Exec) wf(s string, t types.Type, st *State, depth int) string {
	switch u := t.Underlying().(type) {
	case *types.Basic:
		if lo, hi, ok := IntRange(t); ok {
			return And("(<= "+BigLit(lo)+" "+s+")", "(<= "+s+" "+BigLit(hi)+")")
		}
		if u.Info()&types.IsString != 0 {
			return x.wfSlice(s, st, 1)
		}
		if u.Kind() == types.UnsafePointer {
			return And("(<= 0 (p_reg "+s+"))", "(< (p_reg "+s+") "+st.nr+")")
		}
		return "true"
	case *types.Slice:
		sz := x.te.SizeOf(u.Elem())
		if sz < 1 {
			sz = 1
		}
		return x.wfSlice(s, st, sz)
	case *types.Pointer:
		return And("(<= 0 (p_reg "+s+"))", "(< (p_reg "+s+") "+st.nr+")", "(<= 0 (p_idx "+s+"))")
	case *types.Interface:
		return "(<= 0 " + s + ")"
	case *types.Struct:
		if depth > 3 {
			return "true"
		}
		si := x.te.structOf(t)
		var parts []string
		for i, f := range si.fields {
			parts = append(parts, x.wf("("+f+" "+s+")", si.ftypes[i], st, depth+1))
		}
		return And(parts...)
	case *types.Array:
		if u.Len() <= 9 && depth <= 2 {
			var parts []string
			for i := int64(0); i < u.Len(); i++ {
				parts = append(parts, x.wf(fmt.Sprintf("(select %s %d)", s, i), u.Elem(), st, depth+1))
			}
			return And(parts...)
		}
		return "true"
	}
	return "true"
}

const maxSliceElems = "281474976710656" // 2^48 (assumption A-mem)

func (x *Exec) wfSlice(s string, st *State, elemSize int64) string {
	return And(
		"(<= 0 (s_reg "+s+"))", "(< (s_reg "+s+") "+st.nr+")",
		"(<= 0 (s_off "+s+"))", "(<= 0 (s_len "+s+"))", "(<= (s_len "+s+") (s_cap "+s+"))",
		fmt.Sprintf("(<= (* (+ (s_off %s) (s_cap %s)) %d) %s)", s, s, elemSize, maxSliceElems),
		"(=> (= (s_reg "+s+") 0) (= (s_cap "+s+") 0))")
}

func (x *Exec) fresh(st *State, t types.Type, prefix string) Val {
	if tup, ok := t.(*types.Tuple); ok {
		var vs []Val
		for i := 0; i < tup.Len(); i++ {
			vs = append(vs, x.fresh(st, tup.At(i).Type(), prefix))
		}
		return Val{Tup: vs, T: t}
	}
	v := Val{S: x.S.Const(prefix, x.te.Sort(t)), T: t}
	x.wfAssume(st, v)
	return v
}

func (x *Exec) stringConst(s string, t types.Type) Val {
	if x.strlits == nil {
		x.strlits = map[string]string{}
	}
	r, ok := x.strlits[s]
	if !ok {
		r = x.S.Const("strlit", "Int")
		x.strlits[s] = r
		bt := types.Typ[types.Uint8]
		h0 := x.heap0(bt)
		parts := []string{"(< 0 " + r + ")", "(< " + r + " " + x.entry.nr + ")"}
		if len(s) <= 48 {
			for i := 0; i < len(s); i++ {
				parts = append(parts, fmt.Sprintf("(= (select (select %s %s) %d) %d)", h0, r, i, s[i]))
			}
		}
		x.S.Axiom("strlit_"+r, []string{r}, And(parts...))
	}
	return Val{S: fmt.Sprintf("(mk_slice %s 0 %d %d)", r, len(s), len(s)), T: t}
}

func (x *Exec) globalVal(o *types.Var) Val {
	if x.globals == nil {
		x.globals = map[string]Val{}
	}
	k := o.Pkg().Name() + "." + o.Name()
	if v, ok := x.globals[k]; ok {
		return v
	}
	name := "G_" + sanitize(k)
	x.S.Raw(fmt.Sprintf("(declare-const %s %s)", name, x.te.Sort(o.Type())), []string{name}, x.te.Sort(o.Type()))
	v := Val{S: name, T: o.Type()}
	x.globals[k] = v
	// well-formedness as an axiom relative to the entry watermark
	if x.entry != nil {
		x.S.Axiom("gwf_"+name, []string{name}, x.wf(name, o.Type(), x.entry, 0))
	}
	if k == "geom.nativeOrder" {
		le, be := x.byteOrderConst(true), x.byteOrderConst(false)
		x.S.Axiom("nativeorder", []string{name}, "(or (= "+name+" "+le+") (= "+name+" "+be+"))")
	}
	// error sentinels are non-nil
	if _, isIface := o.Type().Underlying().(*types.Interface); isIface && strings.HasPrefix(o.Name(), "Err") || o.Name() == "Stop" {
		x.S.Axiom("gnn_"+name, []string{name}, "(> "+name+" 0)")
	}
	return v
}

func (x *Exec) lookupFunc(pkg *types.Package, name string) *ssa.Function {
	sp := x.prog.Package(pkg)
	if sp == nil {
		return nil
	}
	if f := sp.Func(name); f != nil {
		return f
	}
	return nil
}

// value returns the symbolic value of an SSA value in a frame.
func (x *Exec) value(fr *Frame, st *State, v ssa.Value) Val {
	switch v := v.(type) {
	case *ssa.Const:
		if v.Value == nil {
			return Val{S: x.te.Zero(v.Type()), T: v.Type()}
		}
		return x.constVal(v.Value, v.Type())
	case *ssa.Function:
		return Val{Fn: v, T: v.Type()}
	case *ssa.Builtin:
		return Val{Bltn: v.Name(), T: v.Type()}
	case *ssa.Global:
		// address of a global: model as a pseudo-cell read-only value
		obj, _ := v.Object().(*types.Var)
		if obj == nil {
			unsup("global %s", v.Name())
		}
		gv := x.globalVal(obj)
		return Val{DP: &DPtr{HeapT: nil, Reg: "!global", Idx: gv.S}, T: v.Type(), S: gv.S}
	}
	if val, ok := fr.env[v]; ok {
		return val
	}
	unsup("no value for %s (%T) in %s", v.Name(), v, fr.fn.Name())
	return Val{}
}

func (x *Exec) constInt(v Val) (int64, bool) {
	if v.S == "" {
		return 0, false
	}
	var n int64
	if _, err := fmt.Sscanf(v.S, "%d", &n); err == nil && fmt.Sprint(n) == v.S {
		return n, true
	}
	return 0, false
}

var _ = constant.MakeBool
