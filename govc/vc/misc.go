package vc

import (
	"go/types"
	"sync"

	"golang.org/x/tools/go/ssa"
)

// ---- maps, range, lookup: minimal support ----

func (x *Exec) makeMap(st *State, fr *Frame, in *ssa.MakeMap) Val {
	unsup("maps (MakeMap)")
	return Val{}
}

func (x *Exec) mapUpdate(st *State, fr *Frame, in *ssa.MapUpdate) {
	unsup("maps (MapUpdate)")
}

func (x *Exec) mapLen(st *State, m Val, t types.Type) Val {
	unsup("maps (len)")
	return Val{}
}

func (x *Exec) mapDelete(st *State, fr *Frame, in *ssa.Call, args []Val) Val {
	unsup("maps (delete)")
	return Val{}
}

func (x *Exec) lookup(st *State, fr *Frame, in *ssa.Lookup) Val {
	if isString(in.X.Type()) {
		s := x.term(x.value(fr, st, in.X))
		i := x.term(x.value(fr, st, in.Index))
		x.oblige(st, fr, in, "idx", And("(<= 0 "+i+")", "(< "+i+" (s_len "+s+"))"), "string index out of range")
		bt := types.Typ[types.Uint8]
		v := Val{S: x.S.Define("ch", "Int", x.heapLoad(st, bt, "(s_reg "+s+")", "(+ (s_off "+s+") "+i+")")), T: in.Type()}
		x.wfAssume(st, v)
		return v
	}
	unsup("maps (Lookup)")
	return Val{}
}

// String iteration.  The iterator's byte position lives in a hidden cell keyed
// by the Range instruction; Next yields (ok, position, rune).  Bytes below
// 0x80 are their own rune and advance by one; for any other lead byte the
// rune (>= 0x80, or RuneError) and the width (1..4, staying inside the string)
// are left unconstrained: a sound over-approximation of UTF-8 decoding.
var iterAllocs = map[*ssa.Range]*ssa.Alloc{}
var iterMu sync.Mutex

func iterAlloc(r *ssa.Range) *ssa.Alloc {
	iterMu.Lock()
	defer iterMu.Unlock()
	a := iterAllocs[r]
	if a == nil {
		a = &ssa.Alloc{Comment: "iterpos"}
		iterAllocs[r] = a
	}
	return a
}

func (x *Exec) rangeInstr(st *State, fr *Frame, in *ssa.Range) Val {
	if !isString(in.X.Type()) {
		unsup("range over %s", in.X.Type())
	}
	s := x.value(fr, st, in.X)
	st.cells[cellKey{fr.id, iterAlloc(in)}] = Val{S: "0", T: types.Typ[types.Int]}
	return Val{S: x.S.Define("its", "Slice", x.term(s)), T: in.X.Type()}
}

func (x *Exec) nextInstr(st *State, fr *Frame, in *ssa.Next) Val {
	rng, ok := in.Iter.(*ssa.Range)
	if !ok || !in.IsString {
		unsup("next over a non-string iterator")
	}
	k := cellKey{fr.id, iterAlloc(rng)}
	pv, live := st.cells[k]
	if !live {
		unsup("string iterator used outside its loop")
	}
	s := x.term(x.value(fr, st, rng))
	pos := pv.S
	x.assume(st, And("(<= 0 "+pos+")", "(<= "+pos+" (s_len "+s+"))"))
	okT := x.S.Define("itok", "Bool", "(< "+pos+" (s_len "+s+"))")
	bt := types.Typ[types.Uint8]
	b := x.S.Define("itb", "Int", x.heapLoad(st, bt, "(s_reg "+s+")", "(+ (s_off "+s+") "+pos+")"))
	wr := x.S.Const("itrune", "Int")
	ww := x.S.Const("itw", "Int")
	x.assume(st, Imp(And(okT, "(>= "+b+" 128)"), And("(>= "+wr+" 128)", "(<= "+wr+" 1114111)", "(<= 1 "+ww+")", "(<= "+ww+" 4)", "(<= (+ "+pos+" "+ww+") (s_len "+s+"))")))
	x.assume(st, Imp(okT, And("(<= 0 "+b+")", "(<= "+b+" 255)")))
	r := x.S.Define("itr", "Int", Ite("(< "+b+" 128)", b, wr))
	np := x.S.Define("itn", "Int", Ite(okT, Ite("(< "+b+" 128)", "(+ "+pos+" 1)", "(+ "+pos+" "+ww+")"), pos))
	st.cells[k] = Val{S: np, T: types.Typ[types.Int]}
	tup := in.Type().(*types.Tuple)
	return Val{Tup: []Val{{S: okT, T: tup.At(0).Type()}, {S: pos, T: tup.At(1).Type()}, {S: r, T: tup.At(2).Type()}}, T: in.Type()}
}

// calleeVarName finds the source name of the variable a dynamic call goes through.
func calleeVarName(v ssa.Value) string {
	switch t := v.(type) {
	case *ssa.Parameter:
		return t.Name()
	case *ssa.FreeVar:
		return t.Name()
	case *ssa.UnOp:
		switch a := t.X.(type) {
		case *ssa.Alloc:
			return a.Comment
		case *ssa.FreeVar:
			return a.Name()
		}
	}
	return ""
}

// ghostCallback applies the oncall clauses of the root contract to a call
// through a function-typed variable.
func (x *Exec) ghostCallback(st *State, fr *Frame, in *ssa.Call, fv ssa.Value, args []Val, res Val) {
	if x.contract == nil || x.contract.OnCalls == nil {
		return
	}
	name := calleeVarName(fv)
	oc := x.contract.OnCalls[name]
	if oc == nil {
		return
	}
	vars := map[string]Val{}
	for k, v := range x.rootArgs {
		vars[k] = v
	}
	for i, a := range args {
		if a.DP != nil || a.Clo != nil || a.Fn != nil || a.Tup != nil {
			continue
		}
		vars["arg"+itoa(i)] = a
	}
	pre := st.clone()
	sc := &SpecCtx{x: x, st: pre, old: pre, vars: vars, pkg: pkgOf(x.root)}
	for j, cl := range oc.Requires {
		g := x.evalClause(sc, cl)
		x.emitNamed(st, "oncall-pre@"+name+"#"+clauseLabel(cl, j), "oncall", fr, in.Pos(), g, "call of "+name+" violates its protocol: "+cl.Src)
	}
	pre.pc = st.pc
	x.havocGhosts(st, x.contract)
	post := &SpecCtx{x: x, st: st, old: pre, vars: vars, pkg: pkgOf(x.root)}
	if res.Tup == nil && res.S != "" {
		post.vars["result"] = res
	}
	for _, cl := range oc.Ensures {
		x.assume(st, x.evalClause(post, cl))
	}
}

func itoa(i int) string {
	if i == 0 {
		return "0"
	}
	s := ""
	for i > 0 {
		s = string(rune('0'+i%10)) + s
		i /= 10
	}
	return s
}
