package vc

import (
	"go/types"

	"golang.org/x/tools/go/ssa"
)

// ---- maps, range, lookup: minimal support ----

func (x *Exec) makeMap(st *State, fr *Frame, in *ssa.MakeMap) Val {
	unsup("maps (MakeMap)")
	return Val{}
}

func (x *Exec) mapUpdate(st *State, fr *Frame, in *ssa.MapUpdate) {
	unsup("maps (MapUpdate)")
}

func (x *Exec) mapLen(st *State, m Val, t types.Type) Val {
	unsup("maps (len)")
	return Val{}
}

func (x *Exec) mapDelete(st *State, fr *Frame, in *ssa.Call, args []Val) Val {
	unsup("maps (delete)")
	return Val{}
}

func (x *Exec) lookup(st *State, fr *Frame, in *ssa.Lookup) Val {
	if isString(in.X.Type()) {
		s := x.term(x.value(fr, st, in.X))
		i := x.term(x.value(fr, st, in.Index))
		x.oblige(st, fr, in, "idx", And("(<= 0 "+i+")", "(< "+i+" (s_len "+s+"))"), "string index out of range")
		bt := types.Typ[types.Uint8]
		v := Val{S: x.S.Define("ch", "Int", x.heapLoad(st, bt, "(s_reg "+s+")", "(+ (s_off "+s+") "+i+")")), T: in.Type()}
		x.wfAssume(st, v)
		return v
	}
	unsup("maps (Lookup)")
	return Val{}
}

func (x *Exec) rangeInstr(st *State, fr *Frame, in *ssa.Range) Val {
	unsup("range over %s", in.X.Type())
	return Val{}
}

func (x *Exec) nextInstr(st *State, fr *Frame, in *ssa.Next) Val {
	unsup("next")
	return Val{}
}

func (x *Exec) ghostCallback(st *State, fr *Frame, in *ssa.Call, fv ssa.Value, args []Val, res Val) {}
