package vc

import (
	"go/types"

	"golang.org/x/tools/go/ssa"
)

// ---- maps, range, lookup: minimal support ----

func (x *Exec) makeMap(st *State, fr *Frame, in *ssa.MakeMap) Val {
	unsup("maps (MakeMap)")
	return Val{}
}

func (x *Exec) mapUpdate(st *State, fr *Frame, in *ssa.MapUpdate) {
	unsup("maps (MapUpdate)")
}

func (x *Exec) mapLen(st *State, m Val, t types.Type) Val {
	unsup("maps (len)")
	return Val{}
}

func (x *Exec) mapDelete(st *State, fr *Frame, in *ssa.Call, args []Val) Val {
	unsup("maps (delete)")
	return Val{}
}

func (x *Exec) lookup(st *State, fr *Frame, in *ssa.Lookup) Val {
	if isString(in.X.Type()) {
		s := x.term(x.value(fr, st, in.X))
		i := x.term(x.value(fr, st, in.Index))
		x.oblige(st, fr, in, "idx", And("(<= 0 "+i+")", "(< "+i+" (s_len "+s+"))"), "string index out of range")
		bt := types.Typ[types.Uint8]
		v := Val{S: x.S.Define("ch", "Int", x.heapLoad(st, bt, "(s_reg "+s+")", "(+ (s_off "+s+") "+i+")")), T: in.Type()}
		x.wfAssume(st, v)
		return v
	}
	unsup("maps (Lookup)")
	return Val{}
}

func (x *Exec) rangeInstr(st *State, fr *Frame, in *ssa.Range) Val {
	unsup("range over %s", in.X.Type())
	return Val{}
}

func (x *Exec) nextInstr(st *State, fr *Frame, in *ssa.Next) Val {
	unsup("next")
	return Val{}
}

// calleeVarName finds the source name of the variable a dynamic call goes through.
func calleeVarName(v ssa.Value) string {
	switch t := v.(type) {
	case *ssa.Parameter:
		return t.Name()
	case *ssa.FreeVar:
		return t.Name()
	case *ssa.UnOp:
		switch a := t.X.(type) {
		case *ssa.Alloc:
			return a.Comment
		case *ssa.FreeVar:
			return a.Name()
		}
	}
	return ""
}

// ghostCallback applies the oncall clauses of the root contract to a call
// through a function-typed variable.
func (x *Exec) ghostCallback(st *State, fr *Frame, in *ssa.Call, fv ssa.Value, args []Val, res Val) {
	if x.contract == nil || x.contract.OnCalls == nil {
		return
	}
	name := calleeVarName(fv)
	oc := x.contract.OnCalls[name]
	if oc == nil {
		return
	}
	vars := map[string]Val{}
	for k, v := range x.rootArgs {
		vars[k] = v
	}
	for i, a := range args {
		if a.DP != nil || a.Clo != nil || a.Fn != nil || a.Tup != nil {
			continue
		}
		vars["arg"+itoa(i)] = a
	}
	pre := st.clone()
	sc := &SpecCtx{x: x, st: pre, old: pre, vars: vars, pkg: pkgOf(x.root)}
	for j, cl := range oc.Requires {
		g := x.evalClause(sc, cl)
		x.emitNamed(st, "oncall-pre@"+name+"#"+clauseLabel(cl, j), "oncall", fr, in.Pos(), g, "call of "+name+" violates its protocol: "+cl.Src)
	}
	pre.pc = st.pc
	x.havocGhosts(st, x.contract)
	post := &SpecCtx{x: x, st: st, old: pre, vars: vars, pkg: pkgOf(x.root)}
	if res.Tup == nil && res.S != "" {
		post.vars["result"] = res
	}
	for _, cl := range oc.Ensures {
		x.assume(st, x.evalClause(post, cl))
	}
}

func itoa(i int) string {
	if i == 0 {
		return "0"
	}
	s := ""
	for i > 0 {
		s = string(rune('0'+i%10)) + s
		i /= 10
	}
	return s
}
