package vc

import (
	"fmt"
	"go/types"
	"math/big"
	"strings"
)

// FloatMode selects the model of float64.
type FloatMode int

const (
	FloatIEEE FloatMode = iota // SMT FloatingPoint 11 53, bit precise
	FloatReal                  // mathematical reals; rounding ignored (assumption A-real)
)

const fpSort = "(_ FloatingPoint 11 53)"

// TypeEnv maps Go types to SMT sorts for one script.
type TypeEnv struct {
	S       *Script
	FMode   FloatMode
	structs map[string]*structInfo
	heapIDs map[string]string
	tids    map[string]int
	sizes   types.Sizes
}

type structInfo struct {
	sort   string
	ctor   string
	fields []string // selector names
	ftypes []types.Type
	fnames []string
	st     *types.Struct
}

func NewTypeEnv(s *Script, fm FloatMode) *TypeEnv {
	te := &TypeEnv{S: s, FMode: fm, structs: map[string]*structInfo{}, heapIDs: map[string]string{}, tids: map[string]int{}}
	te.sizes = types.SizesFor("gc", "amd64")
	s.Raw("(declare-datatypes ((Slice 0)) (((mk_slice (s_reg Int) (s_off Int) (s_len Int) (s_cap Int)))))",
		[]string{"Slice", "mk_slice", "s_reg", "s_off", "s_len", "s_cap"}, "")
	s.Raw("(declare-datatypes ((Ptr 0)) (((mk_ptr (p_reg Int) (p_idx Int)))))",
		[]string{"Ptr", "mk_ptr", "p_reg", "p_idx"}, "")
	s.DeclareFun("dyn", []string{"Int"}, "Int")
	return te
}

func (te *TypeEnv) FloatSort() string {
	if te.FMode == FloatReal {
		return "Real"
	}
	return fpSort
}

func sanitize(s string) string {
	var sb strings.Builder
	for _, r := range s {
		switch {
		case r >= 'a' && r <= 'z', r >= 'A' && r <= 'Z', r >= '0' && r <= '9', r == '_':
			sb.WriteRune(r)
		case r == '.':
			sb.WriteByte('_')
		case r == '*':
			sb.WriteString("P")
		case r == '[':
			sb.WriteString("L")
		case r == ']':
			sb.WriteString("R")
		default:
			sb.WriteByte('_')
		}
	}
	return sb.String()
}

func shortTypeName(t types.Type) string {
	s := types.TypeString(t, func(p *types.Package) string { return p.Name() })
	return s
}

// TypeID is a small integer identifying a Go type (for the dyn ghost tag).
func (te *TypeEnv) TypeID(t types.Type) int {
	k := shortTypeName(t)
	if id, ok := te.tids[k]; ok {
		return id
	}
	id := len(te.tids) + 1
	te.tids[k] = id
	return id
}

// Sort returns the SMT sort for a Go type.
func (te *TypeEnv) Sort(t types.Type) string {
	switch u := t.Underlying().(type) {
	case *types.Basic:
		switch {
		case u.Info()&types.IsBoolean != 0:
			return "Bool"
		case u.Info()&types.IsInteger != 0:
			return "Int"
		case u.Info()&types.IsFloat != 0:
			return te.FloatSort()
		case u.Info()&types.IsString != 0:
			return "Slice"
		case u.Kind() == types.UnsafePointer:
			return "Ptr"
		case u.Kind() == types.UntypedNil:
			return "Ptr"
		}
		return "Int"
	case *types.Pointer:
		return "Ptr"
	case *types.Slice:
		return "Slice"
	case *types.Array:
		return "(Array Int " + te.Sort(u.Elem()) + ")"
	case *types.Struct:
		return te.structOf(t).sort
	case *types.Interface:
		return "Int"
	case *types.Signature:
		return "Int"
	case *types.Map:
		return "Int"
	case *types.Chan:
		return "Int"
	case *types.Tuple:
		panic("tuple has no sort")
	}
	panic(fmt.Sprintf("Sort: unhandled type %v", t))
}

func (te *TypeEnv) structOf(t types.Type) *structInfo {
	key := shortTypeName(t)
	if _, ok := t.(*types.Named); !ok {
		key = shortTypeName(t.Underlying())
	}
	if si, ok := te.structs[key]; ok {
		return si
	}
	st := t.Underlying().(*types.Struct)
	id := len(te.structs)
	base := sanitize(key)
	if len(base) > 40 {
		base = base[:40]
	}
	si := &structInfo{sort: fmt.Sprintf("T%d_%s", id, base), st: st}
	si.ctor = "mk_" + si.sort
	te.structs[key] = si // register before recursing (recursive types only via Ptr, which needs no decl)
	var parts []string
	for i := 0; i < st.NumFields(); i++ {
		f := st.Field(i)
		sel := fmt.Sprintf("f%d_%s", id, sanitize(f.Name()))
		if f.Name() == "_" {
			sel = fmt.Sprintf("f%d_blank%d", id, i)
		}
		si.fields = append(si.fields, sel)
		si.fnames = append(si.fnames, f.Name())
		si.ftypes = append(si.ftypes, f.Type())
		parts = append(parts, fmt.Sprintf("(%s %s)", sel, te.Sort(f.Type())))
	}
	syms := append([]string{si.sort, si.ctor}, si.fields...)
	var text string
	if len(parts) == 0 {
		text = fmt.Sprintf("(declare-datatypes ((%s 0)) (((%s))))", si.sort, si.ctor)
	} else {
		text = fmt.Sprintf("(declare-datatypes ((%s 0)) (((%s %s))))", si.sort, si.ctor, strings.Join(parts, " "))
	}
	te.S.Raw(text, syms, strings.Join(parts, " "))
	return si
}

// Zero returns the zero value term of a type.
func (te *TypeEnv) Zero(t types.Type) string {
	switch u := t.Underlying().(type) {
	case *types.Basic:
		switch {
		case u.Info()&types.IsBoolean != 0:
			return "false"
		case u.Info()&types.IsInteger != 0:
			return "0"
		case u.Info()&types.IsFloat != 0:
			if te.FMode == FloatReal {
				return "0.0"
			}
			return "(_ +zero 11 53)"
		case u.Info()&types.IsString != 0:
			return "(mk_slice 0 0 0 0)"
		}
		return te.zeroOfSort(te.Sort(t))
	case *types.Pointer:
		return "(mk_ptr 0 0)"
	case *types.Slice:
		return "(mk_slice 0 0 0 0)"
	case *types.Array:
		return fmt.Sprintf("((as const %s) %s)", te.Sort(t), te.Zero(u.Elem()))
	case *types.Struct:
		si := te.structOf(t)
		if len(si.fields) == 0 {
			return si.ctor
		}
		var zs []string
		for _, ft := range si.ftypes {
			zs = append(zs, te.Zero(ft))
		}
		return "(" + si.ctor + " " + strings.Join(zs, " ") + ")"
	}
	return te.zeroOfSort(te.Sort(t))
}

func (te *TypeEnv) zeroOfSort(sort string) string {
	switch sort {
	case "Int":
		return "0"
	case "Bool":
		return "false"
	case "Real":
		return "0.0"
	case fpSort:
		return "(_ +zero 11 53)"
	case "Ptr":
		return "(mk_ptr 0 0)"
	case "Slice":
		return "(mk_slice 0 0 0 0)"
	}
	panic("zeroOfSort " + sort)
}

// HeapName returns the base name of the heap array for element type t.
func (te *TypeEnv) HeapKey(t types.Type) string {
	t = types.Unalias(t)
	if b, ok := t.(*types.Basic); ok {
		switch b.Kind() {
		case types.Uint8:
			return "uint8" // byte
		case types.Int32:
			return "int32" // rune
		}
	}
	return shortTypeName(t)
}

func (te *TypeEnv) HeapSort(t types.Type) string {
	return "(Array Int (Array Int " + te.Sort(t) + "))"
}

// SizeOf returns the machine size of a type in bytes.
func (te *TypeEnv) SizeOf(t types.Type) int64 {
	return te.sizes.Sizeof(t)
}

// IntRange returns [lo,hi] for a basic integer type.
func IntRange(t types.Type) (lo, hi *big.Int, ok bool) {
	b, isB := t.Underlying().(*types.Basic)
	if !isB || b.Info()&types.IsInteger == 0 {
		return nil, nil, false
	}
	bits := 64
	switch b.Kind() {
	case types.Int8, types.Uint8:
		bits = 8
	case types.Int16, types.Uint16:
		bits = 16
	case types.Int32, types.Uint32:
		bits = 32
	}
	one := big.NewInt(1)
	if b.Info()&types.IsUnsigned != 0 {
		hi = new(big.Int).Sub(new(big.Int).Lsh(one, uint(bits)), one)
		return big.NewInt(0), hi, true
	}
	hi = new(big.Int).Sub(new(big.Int).Lsh(one, uint(bits-1)), one)
	lo = new(big.Int).Neg(new(big.Int).Lsh(one, uint(bits-1)))
	return lo, hi, true
}

func BigLit(v *big.Int) string {
	if v.Sign() < 0 {
		return "(- " + new(big.Int).Neg(v).String() + ")"
	}
	return v.String()
}

func isUnsigned(t types.Type) bool {
	b, ok := t.Underlying().(*types.Basic)
	return ok && b.Info()&types.IsUnsigned != 0
}

func isInteger(t types.Type) bool {
	b, ok := t.Underlying().(*types.Basic)
	return ok && b.Info()&types.IsInteger != 0
}

func isFloat(t types.Type) bool {
	b, ok := t.Underlying().(*types.Basic)
	return ok && b.Info()&types.IsFloat != 0
}

func isString(t types.Type) bool {
	b, ok := t.Underlying().(*types.Basic)
	return ok && b.Info()&types.IsString != 0
}

func isBool(t types.Type) bool {
	b, ok := t.Underlying().(*types.Basic)
	return ok && b.Info()&types.IsBoolean != 0
}

func intBits(t types.Type) int {
	b := t.Underlying().(*types.Basic)
	switch b.Kind() {
	case types.Int8, types.Uint8:
		return 8
	case types.Int16, types.Uint16:
		return 16
	case types.Int32, types.Uint32:
		return 32
	}
	return 64
}

// EntryHeapName is the SMT name of the entry heap of element type t (as long as
// no other symbol of that name exists in the script).
func EntryHeapName(t types.Type) string {
	return "H0_" + sanitize((&TypeEnv{}).HeapKey(t))
}
