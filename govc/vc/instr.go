package vc

import (
	"fmt"
	"go/token"
	"go/types"
	"math/big"
	"strings"

	"golang.org/x/tools/go/ssa"
)

func pow2(n int) *big.Int { return new(big.Int).Lsh(big.NewInt(1), uint(n)) }

// wrap reduces a mathematical integer term into the range of integer type t
// (Go's defined wrap-around for conversions and unsigned arithmetic).
func wrapInt(term string, t types.Type) string {
	bits := intBits(t)
	m := pow2(bits).String()
	if isUnsigned(t) {
		return "(mod " + term + " " + m + ")"
	}
	h := pow2(bits - 1).String()
	return "(- (mod (+ " + term + " " + h + ") " + m + ") " + h + ")"
}

func inRange(term string, t types.Type) string {
	lo, hi, _ := IntRange(t)
	return And("(<= "+BigLit(lo)+" "+term+")", "(<= "+term+" "+BigLit(hi)+")")
}

func (x *Exec) ensurePrelude() {
	if x.S.Has("tdiv") {
		return
	}
	x.S.Raw("(define-fun tdiv ((a Int) (b Int)) Int (ite (>= a 0) (ite (> b 0) (div a b) (- (div a (- b)))) (ite (> b 0) (- (div (- a) b)) (div (- a) (- b)))))",
		[]string{"tdiv"}, "")
	x.S.Raw("(define-fun tmod ((a Int) (b Int)) Int (- a (* b (tdiv a b))))", []string{"tmod"}, "tdiv")
	x.S.DeclareFun("band", []string{"Int", "Int"}, "Int")
	x.S.DeclareFun("bor", []string{"Int", "Int"}, "Int")
	x.S.DeclareFun("bxor", []string{"Int", "Int"}, "Int")
	x.S.Axiom("band_rng", []string{"band"}, "(forall ((a Int) (b Int)) (! (=> (and (>= a 0) (>= b 0)) (and (>= (band a b) 0) (<= (band a b) a) (<= (band a b) b))) :pattern ((band a b))))")
	x.S.Axiom("bor_rng", []string{"bor"}, "(forall ((a Int) (b Int)) (! (=> (and (>= a 0) (>= b 0)) (and (>= (bor a b) a) (>= (bor a b) b) (<= (bor a b) (+ a b)))) :pattern ((bor a b))))")
	x.S.Axiom("bxor_rng", []string{"bxor"}, "(forall ((a Int) (b Int)) (! (=> (and (>= a 0) (>= b 0)) (and (>= (bxor a b) 0) (<= (bxor a b) (+ a b)))) :pattern ((bxor a b))))")
}

func isPow2Minus1(v int64) (int, bool) {
	if v <= 0 {
		return 0, false
	}
	k := 0
	for v&1 == 1 {
		v >>= 1
		k++
	}
	return k, v == 0
}

func (x *Exec) binop(st *State, fr *Frame, in *ssa.BinOp) Val {
	a := x.value(fr, st, in.X)
	b := x.value(fr, st, in.Y)
	t := in.X.Type()
	rt := in.Type()
	switch in.Op {
	case token.EQL, token.NEQ:
		var r string
		switch {
		case isString(t):
			r = x.stringEq(st, a, b, in.X, in.Y)
		case isInterface(t):
			r = Eq(x.term(a), x.term(b))
		default:
			_, isPtr := t.Underlying().(*types.Pointer)
			if b, ok := t.Underlying().(*types.Basic); ok && b.Kind() == types.UnsafePointer {
				isPtr = true
			}
			if isPtr {
				if cv, ok := in.X.(*ssa.Const); ok && cv.Value == nil {
					r = "(= (p_reg " + x.ptrTermCmp(b) + ") 0)"
				} else if cv, ok := in.Y.(*ssa.Const); ok && cv.Value == nil {
					r = "(= (p_reg " + x.ptrTermCmp(a) + ") 0)"
				} else {
					r = Eq(x.ptrTermCmp(a), x.ptrTermCmp(b))
				}
			} else if _, isSl := t.Underlying().(*types.Slice); isSl {
				// only comparison with nil is legal
				o := a
				if cv, ok := in.X.(*ssa.Const); ok && cv.Value == nil {
					o = b
				}
				r = "(= (s_reg " + x.term(o) + ") 0)"
			} else if _, isSig := t.Underlying().(*types.Signature); isSig {
				o, oc := a, in.Y
				if cv, ok := in.X.(*ssa.Const); ok && cv.Value == nil {
					o = b
					oc = in.X
				}
				_ = oc
				if o.Clo != nil || o.Fn != nil {
					r = "false"
				} else {
					r = "(= " + x.term(o) + " 0)"
				}
			} else {
				r = x.goEq(t, x.term(a), x.term(b))
			}
		}
		if in.Op == token.NEQ {
			r = Not(r)
		}
		return Val{S: r, T: rt}
	case token.LSS, token.LEQ, token.GTR, token.GEQ:
		op := map[token.Token]string{token.LSS: "<", token.LEQ: "<=", token.GTR: ">", token.GEQ: ">="}[in.Op]
		if isFloat(t) && x.te.FMode == FloatIEEE {
			op = map[string]string{"<": "fp.lt", "<=": "fp.leq", ">": "fp.gt", ">=": "fp.geq"}[op]
		} else if isString(t) {
			unsup("string ordering")
		}
		return Val{S: "(" + op + " " + x.term(a) + " " + x.term(b) + ")", T: rt}
	}
	if isFloat(rt) {
		x.usedFloatArith = true
		x.faCount++
		as, bs := x.term(a), x.term(b)
		if x.te.FMode == FloatIEEE {
			op := map[token.Token]string{token.ADD: "fp.add", token.SUB: "fp.sub", token.MUL: "fp.mul", token.QUO: "fp.div"}[in.Op]
			if op == "" {
				unsup("float op %s", in.Op)
			}
			return Val{S: x.S.Define("f", fpSort, "("+op+" RNE "+as+" "+bs+")"), T: rt}
		}
		op := map[token.Token]string{token.ADD: "+", token.SUB: "-", token.MUL: "*", token.QUO: "/"}[in.Op]
		if op == "" {
			unsup("float op %s", in.Op)
		}
		if in.Op == token.QUO {
			// In IEEE arithmetic x/0 with x != 0 is a well-defined infinity (and
			// e.g. atan(x/0) is intended); the value the real model cannot
			// represent at all is 0/0 = NaN, so that is what is excluded.
			x.oblige(st, fr, in, "fdiv", Or(Not(Eq(bs, "0.0")), Not(Eq(as, "0.0"))), "0/0 (NaN) reachable in a float division")
			x.assume(st, Not(Eq(bs, "0.0")))
			x.note("real model: a float division with non-zero dividend is assumed to have a non-zero divisor (x/0 = Inf is not modelled)")
		}
		return Val{S: x.S.Define("f", "Real", "("+op+" "+as+" "+bs+")"), T: rt}
	}
	if isString(rt) && in.Op == token.ADD {
		// concatenation: fresh string of summed length, contents unconstrained
		r := x.newRegion(st, nil)
		l := "(+ (s_len " + x.term(a) + ") (s_len " + x.term(b) + "))"
		return Val{S: x.S.Define("s", "Slice", "(mk_slice "+r+" 0 "+l+" "+l+")"), T: rt}
	}
	if isBool(rt) {
		as, bs := x.term(a), x.term(b)
		switch in.Op {
		case token.AND:
			return Val{S: And(as, bs), T: rt}
		case token.OR:
			return Val{S: Or(as, bs), T: rt}
		}
	}
	if !isInteger(rt) {
		unsup("binop %s on %s", in.Op, rt)
	}
	x.ensurePrelude()
	as, bs := x.term(a), x.term(b)
	uns := isUnsigned(rt)
	arith := func(raw string) Val {
		if uns {
			return Val{S: x.S.Define("i", "Int", wrapInt(raw, rt)), T: rt}
		}
		if x.contract != nil && x.contract.WrapArith {
			return Val{S: x.S.Define("i", "Int", wrapInt(raw, rt)), T: rt}
		}
		r := x.S.Define("i", "Int", raw)
		if x.contract != nil && x.contract.OvfCheck {
			x.oblige(st, fr, in, "ovf", inRange(r, rt), "signed integer overflow")
		} else {
			x.assume(st, inRange(r, rt))
			x.note("A-ovf: signed integer arithmetic is assumed not to overflow (overflow obligations are generated only for units marked ovfcheck: the decoders)")
		}
		return Val{S: r, T: rt}
	}
	switch in.Op {
	case token.ADD:
		return arith("(+ " + as + " " + bs + ")")
	case token.SUB:
		return arith("(- " + as + " " + bs + ")")
	case token.MUL:
		return arith("(* " + as + " " + bs + ")")
	case token.QUO, token.REM:
		x.oblige(st, fr, in, "div0", Not(Eq(bs, "0")), "integer division by zero")
		f := "tdiv"
		if in.Op == token.REM {
			f = "tmod"
		}
		if uns {
			f = map[string]string{"tdiv": "div", "tmod": "mod"}[f]
		}
		return Val{S: x.S.Define("i", "Int", "("+f+" "+as+" "+bs+")"), T: rt}
	case token.SHL, token.SHR:
		if k, ok := x.constInt(b); ok && k >= 0 && k < 64 {
			p := pow2(int(k)).String()
			if in.Op == token.SHL {
				if uns {
					return Val{S: x.S.Define("i", "Int", wrapInt("(* "+as+" "+p+")", rt)), T: rt}
				}
				return Val{S: x.S.Define("i", "Int", wrapInt("(* "+as+" "+p+")", rt)), T: rt}
			}
			return Val{S: x.S.Define("i", "Int", "(div "+as+" "+p+")"), T: rt}
		}
		if k, ok := x.constInt(b); ok && k >= 64 {
			if in.Op == token.SHL {
				return Val{S: "0", T: rt}
			}
			if uns {
				return Val{S: "0", T: rt}
			}
			return Val{S: "(ite (< " + as + " 0) (- 1) 0)", T: rt}
		}
		// variable shift: 2^b as an ite chain over 0..63
		x.oblige(st, fr, in, "shift", "(>= "+bs+" 0)", "negative shift count")
		pw := "0"
		for k := 63; k >= 0; k-- {
			pw = fmt.Sprintf("(ite (= %s %d) %s %s)", bs, k, pow2(k).String(), pw)
		}
		p := x.S.Define("pw", "Int", pw)
		if in.Op == token.SHL {
			return Val{S: x.S.Define("i", "Int", "(ite (>= "+bs+" 64) 0 "+wrapInt("(* "+as+" "+p+")", rt)+")"), T: rt}
		}
		neg := "0"
		if !uns {
			neg = "(ite (< " + as + " 0) (- 1) 0)"
		}
		return Val{S: x.S.Define("i", "Int", "(ite (>= "+bs+" 64) "+neg+" (div "+as+" "+p+"))"), T: rt}
	case token.AND:
		if k, ok := x.constInt(b); ok {
			if n, ok := isPow2Minus1(k); ok {
				return Val{S: x.S.Define("i", "Int", "(mod "+as+" "+pow2(n).String()+")"), T: rt}
			}
			if k == 0 {
				return Val{S: "0", T: rt}
			}
			if k > 0 {
				var terms []string
				for i := 0; i < 62; i++ {
					if k&(1<<uint(i)) != 0 {
						p := pow2(i).String()
						terms = append(terms, "(ite (= (mod (div "+as+" "+p+") 2) 1) "+p+" 0)")
					}
				}
				return Val{S: x.S.Define("i", "Int", "(+ 0 "+strings.Join(terms, " ")+")"), T: rt}
			}
			// single-bit / contiguous mask  m = (2^n - 1) << s
			if s, n, ok := contiguousMask(k); ok {
				return Val{S: x.S.Define("i", "Int", fmt.Sprintf("(* (mod (div %s %s) %s) %s)", as, pow2(s).String(), pow2(n).String(), pow2(s).String())), T: rt}
			}
		}
		if k, ok := x.constInt(a); ok {
			if n, ok := isPow2Minus1(k); ok {
				return Val{S: x.S.Define("i", "Int", "(mod "+bs+" "+pow2(n).String()+")"), T: rt}
			}
		}
		if intBits(rt) <= 8 {
			return Val{S: x.S.Define("i", "Int", bitwise8(as, bs, "and")), T: rt}
		}
		return Val{S: "(band " + as + " " + bs + ")", T: rt}
	case token.OR:
		if k, ok := x.constInt(b); ok && k >= 0 && intBits(rt) > 8 {
			return Val{S: x.S.Define("i", "Int", orConst(as, k, "(bor "+as+" "+bs+")")), T: rt}
		}
		if k, ok := x.constInt(a); ok && k >= 0 && intBits(rt) > 8 {
			return Val{S: x.S.Define("i", "Int", orConst(bs, k, "(bor "+as+" "+bs+")")), T: rt}
		}
		if intBits(rt) <= 8 {
			return Val{S: x.S.Define("i", "Int", bitwise8(as, bs, "or")), T: rt}
		}
		return Val{S: "(bor " + as + " " + bs + ")", T: rt}
	case token.XOR:
		if intBits(rt) <= 8 {
			return Val{S: x.S.Define("i", "Int", bitwise8(as, bs, "xor")), T: rt}
		}
		if !uns {
			// x ^ 0 = x and x ^ -1 = ^x = -x-1 exactly (the zig-zag coding uses a
			// mask that is 0 or -1); anything else stays uninterpreted
			t := fmt.Sprintf("(ite (= %s 0) %s (ite (= %s (- 1)) (- (- %s) 1) (ite (= %s 0) %s (ite (= %s (- 1)) (- (- %s) 1) (bxor %s %s)))))", bs, as, bs, as, as, bs, as, bs, as, bs)
			return Val{S: x.S.Define("i", "Int", t), T: rt}
		}
		return Val{S: "(bxor " + as + " " + bs + ")", T: rt}
	case token.AND_NOT:
		unsup("&^ operator")
	}
	unsup("binop %s", in.Op)
	return Val{}
}

func contiguousMask(k int64) (shift, n int, ok bool) {
	if k <= 0 {
		return 0, 0, false
	}
	for k&1 == 0 {
		k >>= 1
		shift++
	}
	n, ok = isPow2Minus1(k)
	return shift, n, ok
}

func isInterface(t types.Type) bool {
	_, ok := t.Underlying().(*types.Interface)
	return ok
}

func (x *Exec) ptrTermCmp(v Val) string {
	if v.DP != nil && (v.DP.Cell != nil || len(v.DP.Path) > 0) {
		// address of a local or interior: definitely non-nil; use a unique non-null token
		return "(mk_ptr (- 1) 0)"
	}
	return x.term(v)
}

func (x *Exec) stringEq(st *State, a, b Val, av, bv ssa.Value) string {
	lit := func(v ssa.Value) (string, bool) {
		if c, ok := v.(*ssa.Const); ok && c.Value != nil {
			s := c.Value.ExactString()
			if len(s) >= 2 && s[0] == '"' {
				var out string
				if _, err := fmt.Sscanf(s, "%q", &out); err == nil {
					return out, true
				}
			}
		}
		return "", false
	}
	expand := func(o Val, s string) string {
		os := x.term(o)
		parts := []string{fmt.Sprintf("(= (s_len %s) %d)", os, len(s))}
		bt := types.Typ[types.Uint8]
		for i := 0; i < len(s); i++ {
			parts = append(parts, fmt.Sprintf("(= %s %d)", x.heapLoad(st, bt, "(s_reg "+os+")", fmt.Sprintf("(+ (s_off %s) %d)", os, i)), s[i]))
		}
		return And(parts...)
	}
	if s, ok := lit(bv); ok && len(s) <= 32 {
		return expand(a, s)
	}
	if s, ok := lit(av); ok && len(s) <= 32 {
		return expand(b, s)
	}
	as, bs := x.term(a), x.term(b)
	if as == bs {
		return "true"
	}
	x.S.DeclareFun("streq", []string{"Slice", "Slice"}, "Bool")
	return "(streq " + as + " " + bs + ")"
}

func (x *Exec) unop(st *State, fr *Frame, in *ssa.UnOp) Val {
	switch in.Op {
	case token.MUL:
		p := x.value(fr, st, in.X)
		d := x.toDPtr(p)
		v := x.load(st, fr, in, d, in.Type())
		if v.T == nil {
			v.T = in.Type()
		}
		if v.DP == nil && v.Clo == nil && v.Fn == nil && v.Tup == nil && v.S != "!unmergeable" && d.Cell == nil {
			v.S = x.S.Define("ld", x.te.Sort(in.Type()), v.S)
			v.T = in.Type()
			x.wfAssume(st, v)
		}
		return v
	case token.NOT:
		return Val{S: Not(x.term(x.value(fr, st, in.X))), T: in.Type()}
	case token.SUB:
		v := x.term(x.value(fr, st, in.X))
		t := in.Type()
		if isFloat(t) {
			if x.te.FMode == FloatIEEE {
				return Val{S: "(fp.neg " + v + ")", T: t}
			}
			return Val{S: "(- " + v + ")", T: t}
		}
		if isUnsigned(t) {
			return Val{S: wrapInt("(- "+v+")", t), T: t}
		}
		if x.contract != nil && x.contract.WrapArith {
			return Val{S: x.S.Define("i", "Int", wrapInt("(- "+v+")", t)), T: t}
		}
		r := x.S.Define("i", "Int", "(- "+v+")")
		if x.contract != nil && x.contract.OvfCheck {
			x.oblige(st, fr, in, "ovf", inRange(r, t), "signed negation overflow")
		} else {
			x.assume(st, inRange(r, t))
		}
		return Val{S: r, T: t}
	case token.XOR:
		v := x.term(x.value(fr, st, in.X))
		t := in.Type()
		if isUnsigned(t) {
			return Val{S: "(- " + new(big.Int).Sub(pow2(intBits(t)), big.NewInt(1)).String() + " " + v + ")", T: t}
		}
		return Val{S: "(- (- " + v + ") 1)", T: t}
	}
	unsup("unop %s", in.Op)
	return Val{}
}

func (x *Exec) convert(st *State, fr *Frame, in *ssa.Convert) Val {
	v := x.value(fr, st, in.X)
	from, to := in.X.Type(), in.Type()
	fu, tu := from.Underlying(), to.Underlying()
	switch {
	case isInteger(from) && isInteger(to):
		flo, fhi, _ := IntRange(from)
		tlo, thi, _ := IntRange(to)
		if flo.Cmp(tlo) >= 0 && fhi.Cmp(thi) <= 0 {
			return Val{S: x.term(v), T: to}
		}
		return Val{S: x.S.Define("cv", "Int", wrapInt(x.term(v), to)), T: to}
	case isInteger(from) && isFloat(to):
		if x.te.FMode == FloatReal {
			return Val{S: "(to_real " + x.term(v) + ")", T: to}
		}
		if k, ok := x.constInt(v); ok {
			return Val{S: floatLit(x.te, float64(k)), T: to}
		}
		x.usedFloatArith = true
		x.faCount++
		return Val{S: x.S.Define("f", fpSort, "((_ to_fp 11 53) RNE (to_real "+x.term(v)+"))"), T: to}
	case isFloat(from) && isInteger(to):
		s := x.term(v)
		if x.te.FMode == FloatReal {
			r := x.S.Define("cv", "Int", "(ite (>= "+s+" 0.0) (to_int "+s+") (- (to_int (- "+s+"))))")
			return Val{S: r, T: to}
		}
		r := x.fresh(st, to, "f2i")
		lo, hi, _ := IntRange(to)
		rr := "(fp.to_real (fp.roundToIntegral RTZ " + s + "))"
		inr := And(Not("(fp.isNaN "+s+")"), Not("(fp.isInfinite "+s+")"), "(<= (to_real "+BigLit(lo)+") "+rr+")", "(<= "+rr+" (to_real "+BigLit(hi)+"))")
		x.assume(st, Imp(inr, "(= (to_real "+r.S+") "+rr+")"))
		x.note("float→int conversion of an out-of-range or NaN value yields an unconstrained integer (implementation-defined in Go)")
		return r
	case isFloat(from) && isFloat(to):
		return Val{S: x.term(v), T: to}
	case isString(from) && isByteSlice(to), isByteSlice(from) && isString(to):
		s := x.term(v)
		r := x.newRegion(st, nil)
		bt := types.Typ[types.Uint8]
		inner := x.S.Const("cpy", "(Array Int Int)")
		q := x.S.Fresh("qi")
		x.assume(st, fmt.Sprintf("(forall ((%s Int)) (! (=> (and (<= 0 %s) (< %s (s_len %s))) (= (select %s %s) %s)) :pattern ((select %s %s))))",
			q, q, q, s, inner, q, x.heapLoad(st, bt, "(s_reg "+s+")", "(+ (s_off "+s+") "+q+")"), inner, q))
		h := x.heap(st, bt)
		x.setHeap(st, bt, "(store "+h+" "+r+" "+inner+")")
		return Val{S: x.S.Define("s", "Slice", "(mk_slice "+r+" 0 (s_len "+s+") (s_len "+s+"))"), T: to}
	case isString(to) && isInteger(from):
		r := x.newRegion(st, nil)
		l := x.S.Const("rl", "Int")
		x.assume(st, "(and (<= 1 "+l+") (<= "+l+" 4))")
		return Val{S: "(mk_slice " + r + " 0 " + l + " " + l + ")", T: to}
	}
	// unsafe.Pointer <-> *T
	if b, ok := fu.(*types.Basic); ok && b.Kind() == types.UnsafePointer {
		if _, ok := tu.(*types.Pointer); ok {
			if v.DP != nil {
				d := *v.DP
				d.Unsafe = true
				return Val{DP: &d, T: to}
			}
			s := x.term(v)
			pt := tu.(*types.Pointer)
			if _, isArr := pt.Elem().Underlying().(*types.Array); isArr {
				unsup("unsafe cast to array pointer")
			}
			return Val{DP: &DPtr{HeapT: pt.Elem(), Reg: "(p_reg " + s + ")", Idx: "(p_idx " + s + ")", Unsafe: true}, T: to}
		}
	}
	if b, ok := tu.(*types.Basic); ok && b.Kind() == types.UnsafePointer {
		if _, ok := fu.(*types.Pointer); ok {
			return Val{S: x.ptrTerm(v), T: to}
		}
	}
	if _, ok := fu.(*types.Slice); ok {
		if _, ok := tu.(*types.Slice); ok {
			return Val{S: x.term(v), T: to}
		}
	}
	unsup("convert %s -> %s", from, to)
	return Val{}
}

func isByteSlice(t types.Type) bool {
	s, ok := t.Underlying().(*types.Slice)
	if !ok {
		return false
	}
	b, ok := s.Elem().Underlying().(*types.Basic)
	return ok && b.Kind() == types.Uint8
}

func (x *Exec) makeSlice(st *State, fr *Frame, in *ssa.MakeSlice) Val {
	l := x.term(x.value(fr, st, in.Len))
	c := x.term(x.value(fr, st, in.Cap))
	et := in.Type().Underlying().(*types.Slice).Elem()
	sz := x.te.SizeOf(et)
	if sz == 0 {
		sz = 1
	}
	if x.allocBound != nil {
		// the size is bounded relative to the input by the alloc obligation below
		x.oblige(st, fr, in, "make", And("(<= 0 "+l+")", "(<= "+l+" "+c+")"), "makeslice: negative len or len > cap")
	} else {
		x.oblige(st, fr, in, "make", And("(<= 0 "+l+")", "(<= "+l+" "+c+")"), "makeslice: negative len or len > cap")
		x.assume(st, fmt.Sprintf("(<= (* %s %d) %s)", c, sz, maxSliceElems))
	}
	if x.allocBound != nil && fr != nil {
		sc := &SpecCtx{x: x, st: st, old: x.entry, vars: x.rootArgs, fr: nil, pkg: x.root.Pkg.Pkg}
		if fr.fn == x.root {
			sc.fr = fr
		}
		func() {
			defer func() {
				if r := recover(); r != nil {
					if sf, ok := r.(specFail); ok {
						unsup("allocbound: %s", sf.msg)
					}
					panic(r)
				}
			}()
			b := sc.Eval(x.allocBound.Expr)
			x.oblige(st, fr, in, "alloc", fmt.Sprintf("(<= (* %s %d) %s)", c, sz, b.S), "allocation not proportional to remaining input")
		}()
	}
	r := x.newRegion(st, nil)
	// Allocation does not create a new heap value: the fresh region was never
	// constrained before, so we simply learn its (zeroed) contents.  This keeps
	// heap-dependent uninterpreted predicates stable across allocations.
	x.assume(st, fmt.Sprintf("(= (select %s %s) ((as const (Array Int %s)) %s))", x.heap(st, et), r, x.te.Sort(et), x.te.Zero(et)))
	return Val{S: x.S.Define("s", "Slice", "(mk_slice "+r+" 0 "+l+" "+c+")"), T: in.Type()}
}

func (x *Exec) sliceInstr(st *State, fr *Frame, in *ssa.Slice) Val {
	xv := x.value(fr, st, in.X)
	var lo, hi, mx string
	lo = "0"
	if in.Low != nil {
		lo = x.term(x.value(fr, st, in.Low))
	}
	if in.High != nil {
		hi = x.term(x.value(fr, st, in.High))
	}
	if in.Max != nil {
		mx = x.term(x.value(fr, st, in.Max))
	}
	switch u := in.X.Type().Underlying().(type) {
	case *types.Slice:
		s := x.term(xv)
		if hi == "" {
			hi = "(s_len " + s + ")"
		}
		capT := "(s_cap " + s + ")"
		lim := capT
		if mx != "" {
			lim = mx
			x.oblige(st, fr, in, "slice", And("(<= 0 "+lo+")", "(<= "+lo+" "+hi+")", "(<= "+hi+" "+mx+")", "(<= "+mx+" "+capT+")"), "slice bounds out of range")
		} else {
			x.oblige(st, fr, in, "slice", And("(<= 0 "+lo+")", "(<= "+lo+" "+hi+")", "(<= "+hi+" "+capT+")"), "slice bounds out of range")
		}
		return Val{S: x.S.Define("s", "Slice", fmt.Sprintf("(mk_slice (s_reg %s) (+ (s_off %s) %s) (- %s %s) (- %s %s))", s, s, lo, hi, lo, lim, lo)), T: in.Type()}
	case *types.Basic: // string
		s := x.term(xv)
		if hi == "" {
			hi = "(s_len " + s + ")"
		}
		x.oblige(st, fr, in, "slice", And("(<= 0 "+lo+")", "(<= "+lo+" "+hi+")", "(<= "+hi+" (s_len "+s+"))"), "string slice bounds out of range")
		return Val{S: x.S.Define("s", "Slice", fmt.Sprintf("(mk_slice (s_reg %s) (+ (s_off %s) %s) (- %s %s) (- %s %s))", s, s, lo, hi, lo, hi, lo)), T: in.Type()}
	case *types.Pointer:
		at := u.Elem().Underlying().(*types.Array)
		d := x.toDPtr(xv)
		if d.Cell != nil || len(d.Path) > 0 || d.Idx != wholeArray {
			unsup("slicing an array that is not a whole region")
		}
		n := fmt.Sprint(at.Len())
		if hi == "" {
			hi = n
		}
		lim := n
		if mx != "" {
			lim = mx
		}
		x.oblige(st, fr, in, "slice", And("(<= 0 "+lo+")", "(<= "+lo+" "+hi+")", "(<= "+hi+" "+lim+")", "(<= "+lim+" "+n+")"), "slice bounds out of range")
		return Val{S: x.S.Define("s", "Slice", fmt.Sprintf("(mk_slice %s %s (- %s %s) (- %s %s))", d.Reg, lo, hi, lo, lim, lo)), T: in.Type()}
	}
	unsup("slice of %s", in.X.Type())
	return Val{}
}

func (x *Exec) indexAddr(st *State, fr *Frame, in *ssa.IndexAddr) Val {
	xv := x.value(fr, st, in.X)
	i := x.term(x.value(fr, st, in.Index))
	switch u := in.X.Type().Underlying().(type) {
	case *types.Slice:
		s := x.term(xv)
		x.oblige(st, fr, in, "idx", And("(<= 0 "+i+")", "(< "+i+" (s_len "+s+"))"), "index out of range")
		return Val{DP: &DPtr{HeapT: u.Elem(), Reg: "(s_reg " + s + ")", Idx: x.S.Define("ix", "Int", "(+ (s_off "+s+") "+i+")")}, T: in.Type()}
	case *types.Pointer:
		at := u.Elem().Underlying().(*types.Array)
		d := x.toDPtr(xv)
		x.oblige(st, fr, in, "idx", And("(<= 0 "+i+")", fmt.Sprintf("(< %s %d)", i, at.Len())), "array index out of range")
		if d.Cell == nil && len(d.Path) == 0 && d.Idx == wholeArray {
			return Val{DP: &DPtr{HeapT: d.HeapT, Reg: d.Reg, Idx: i, Unsafe: d.Unsafe}, T: in.Type()}
		}
		nd := *d
		nd.Path = append(append([]step{}, d.Path...), step{isIdx: true, idx: i})
		return Val{DP: &nd, T: in.Type()}
	}
	unsup("indexaddr on %s", in.X.Type())
	return Val{}
}

func (x *Exec) fieldAddr(st *State, fr *Frame, in *ssa.FieldAddr) Val {
	xv := x.value(fr, st, in.X)
	d := x.toDPtr(xv)
	nd := *d
	nd.Path = append(append([]step{}, d.Path...), step{field: in.Field})
	return Val{DP: &nd, T: in.Type()}
}

func (x *Exec) alloc(st *State, fr *Frame, in *ssa.Alloc) Val {
	et := elemOfPtr(in.Type())
	if isLocalCell(in) {
		k := cellKey{fr.id, in}
		st.cells[k] = Val{S: x.te.Zero(et), T: et}
		if _, isSig := et.Underlying().(*types.Signature); isSig {
			st.cells[k] = Val{S: "0", T: et}
		}
		return Val{DP: &DPtr{Cell: &k}, T: in.Type()}
	}
	if at, ok := et.Underlying().(*types.Array); ok {
		r := x.newRegion(st, nil)
		x.assume(st, fmt.Sprintf("(= (select %s %s) %s)", x.heap(st, at.Elem()), r, x.te.Zero(et)))
		fr.heapLocal[in] = r
		return Val{DP: &DPtr{HeapT: at.Elem(), Reg: r, Idx: wholeArray}, T: in.Type()}
	}
	r := x.newRegion(st, et)
	x.assume(st, fmt.Sprintf("(= (select (select %s %s) 0) %s)", x.heap(st, et), r, x.te.Zero(et)))
	fr.heapLocal[in] = r
	return Val{DP: &DPtr{HeapT: et, Reg: r, Idx: "0"}, T: in.Type()}
}

func (x *Exec) makeInterface(st *State, fr *Frame, in *ssa.MakeInterface) Val {
	v := x.value(fr, st, in.X)
	ct := in.X.Type()
	if isInterface(ct) {
		return Val{S: x.term(v), T: in.Type()}
	}
	if n, ok := ct.(*types.Named); ok && n.Obj().Pkg() != nil && n.Obj().Pkg().Path() == "encoding/binary" {
		switch n.Obj().Name() {
		case "littleEndian":
			return Val{S: x.byteOrderConst(true), T: in.Type()}
		case "bigEndian":
			return Val{S: x.byteOrderConst(false), T: in.Type()}
		}
	}
	tid := x.te.TypeID(ct)
	if v.Clo != nil || v.Fn != nil {
		r := x.fresh(st, in.Type(), "ifc")
		x.assume(st, "(> "+r.S+" 0)")
		return r
	}
	srt := x.te.Sort(ct)
	tag := fmt.Sprintf("%d", tid)
	mk := "mkif_" + tag
	un := "unif_" + tag
	x.S.DeclareFun(mk, []string{srt}, "Int")
	x.S.DeclareFun(un, []string{"Int"}, srt)
	x.S.DeclareFun("itype", []string{"Int"}, "Int")
	s := x.term(v)
	i := x.S.Define("ifc", "Int", "("+mk+" "+s+")")
	x.assume(st, And("(> "+i+" 0)", "(= (itype "+i+") "+tag+")", "(= ("+un+" "+i+") "+s+")"))
	return Val{S: i, T: in.Type(), Ifc: &ifcInfo{conc: v, ctype: ct}}
}

func (x *Exec) typeAssert(st *State, fr *Frame, in *ssa.TypeAssert) Val {
	v := x.term(x.value(fr, st, in.X))
	at := in.AssertedType
	var ok string
	var val Val
	if isInterface(at) {
		okc := x.S.Const("taok", "Bool")
		ok = And("(not (= "+v+" 0))", okc)
		val = Val{S: v, T: at}
	} else {
		tid := x.te.TypeID(at)
		tag := fmt.Sprintf("%d", tid)
		srt := x.te.Sort(at)
		x.S.DeclareFun("unif_"+tag, []string{"Int"}, srt)
		x.S.DeclareFun("itype", []string{"Int"}, "Int")
		ok = And("(not (= "+v+" 0))", "(= (itype "+v+") "+tag+")")
		val = Val{S: x.S.Define("ta", srt, "(unif_"+tag+" "+v+")"), T: at}
	}
	if in.CommaOk {
		okv := Val{S: x.S.Define("ok", "Bool", ok), T: types.Typ[types.Bool]}
		// value is zero when !ok
		zv := Val{S: Ite(okv.S, val.S, x.te.Zero(at)), T: at}
		if ok2 := x.te.Sort(at); ok2 != "" {
			x.assume(st, Imp(okv.S, x.wf(val.S, at, st, 0)))
		}
		return Val{Tup: []Val{zv, okv}, T: in.Type()}
	}
	x.oblige(st, fr, in, "assert", ok, "type assertion fails")
	x.wfAssume(st, val)
	return val
}

func typeHasPrefix(t types.Type, p string) bool { return strings.HasPrefix(shortTypeName(t), p) }

// byteOrderConst: the two encoding/binary byte orders as distinguished
// interface values.
func (x *Exec) byteOrderConst(le bool) string {
	if !x.S.Has("IFACE_LE") {
		x.S.Raw("(declare-const IFACE_LE Int)\n(declare-const IFACE_BE Int)", []string{"IFACE_LE", "IFACE_BE"}, "")
		x.S.Axiom("byteorders", []string{"IFACE_LE", "IFACE_BE"}, "(and (> IFACE_LE 0) (> IFACE_BE 0) (not (= IFACE_LE IFACE_BE)))")
	}
	if le {
		return "IFACE_LE"
	}
	return "IFACE_BE"
}

// bitwise8 is the exact bitwise and/or/xor of two 8-bit values (given as
// mathematical integers in 0..255), bit by bit.
func bitwise8(a, b, op string) string {
	var terms []string
	for i := 0; i < 8; i++ {
		p := pow2(i).String()
		ba := "(= (mod (div " + a + " " + p + ") 2) 1)"
		bb := "(= (mod (div " + b + " " + p + ") 2) 1)"
		terms = append(terms, "(ite ("+op+" "+ba+" "+bb+") "+p+" 0)")
	}
	return "(+ " + strings.Join(terms, " ") + ")"
}

// orConst is x | k for a non-negative constant k, exact when x >= 0: every
// bit of k that x lacks is added.
func orConst(xs string, k int64, fallback string) string {
	var terms []string
	for i := 0; i < 62; i++ {
		if k&(1<<uint(i)) != 0 {
			p := pow2(i).String()
			terms = append(terms, "(ite (= (mod (div "+xs+" "+p+") 2) 0) "+p+" 0)")
		}
	}
	if len(terms) == 0 {
		return xs
	}
	return "(ite (>= " + xs + " 0) (+ " + xs + " " + strings.Join(terms, " ") + ") " + fallback + ")"
}
