package vc

import (
	"go/token"
	"go/types"
	"sort"
	"strings"

	"golang.org/x/tools/go/ssa"
)

type loopRec struct {
	head     *ssa.BasicBlock
	blocks   map[*ssa.BasicBlock]bool
	ordinal  int
	pos      token.Pos
	modCells []ssa.Value // Allocs / FreeVars (of this fn) whose cells may be stored to in the loop
	modHeaps map[string]types.Type
	modFresh map[string]types.Type
	modAll   bool // unknown callee: every heap may change
	allocs   bool
	dynCall  bool
	hasCall  bool
}

type loopInfo struct {
	rpo      []*ssa.BasicBlock
	loops    map[*ssa.BasicBlock]*loopRec
	backEdge map[[2]*ssa.BasicBlock]bool
	ordered  []*loopRec
}

func dominates(a, b *ssa.BasicBlock) bool {
	for b != nil {
		if a == b {
			return true
		}
		b = b.Idom()
	}
	return false
}

func (x *Exec) loopInfo(fn *ssa.Function) *loopInfo {
	if li, ok := x.loopCache[fn]; ok {
		return li
	}
	li := &loopInfo{loops: map[*ssa.BasicBlock]*loopRec{}, backEdge: map[[2]*ssa.BasicBlock]bool{}}
	// back edges
	for _, b := range fn.Blocks {
		for _, s := range b.Succs {
			if dominates(s, b) {
				li.backEdge[[2]*ssa.BasicBlock{b, s}] = true
				lr := li.loops[s]
				if lr == nil {
					lr = &loopRec{head: s, blocks: map[*ssa.BasicBlock]bool{s: true}, modHeaps: map[string]types.Type{}}
					li.loops[s] = lr
				}
				// natural loop: nodes that reach b without passing through s
				var stack []*ssa.BasicBlock
				if !lr.blocks[b] {
					lr.blocks[b] = true
					stack = append(stack, b)
				}
				for len(stack) > 0 {
					n := stack[len(stack)-1]
					stack = stack[:len(stack)-1]
					for _, p := range n.Preds {
						if !lr.blocks[p] {
							lr.blocks[p] = true
							stack = append(stack, p)
						}
					}
				}
			}
		}
	}
	// reverse postorder ignoring back edges
	seen := map[*ssa.BasicBlock]bool{}
	var post []*ssa.BasicBlock
	var dfs func(b *ssa.BasicBlock)
	dfs = func(b *ssa.BasicBlock) {
		seen[b] = true
		for i := len(b.Succs) - 1; i >= 0; i-- {
			s := b.Succs[i]
			if li.backEdge[[2]*ssa.BasicBlock{b, s}] || seen[s] {
				continue
			}
			dfs(s)
		}
		post = append(post, b)
	}
	if len(fn.Blocks) > 0 {
		dfs(fn.Blocks[0])
	}
	for i := len(post) - 1; i >= 0; i-- {
		li.rpo = append(li.rpo, post[i])
	}
	// loop positions, ordinals, modified sets
	for _, lr := range li.loops {
		lr.pos = token.NoPos
		for b := range lr.blocks {
			for _, in := range b.Instrs {
				if p := in.Pos(); p != token.NoPos && (lr.pos == token.NoPos || p < lr.pos) {
					if _, isDbg := in.(*ssa.DebugRef); !isDbg {
						lr.pos = p
					}
				}
			}
		}
		li.ordered = append(li.ordered, lr)
	}
	sort.Slice(li.ordered, func(i, j int) bool {
		a, b := li.ordered[i], li.ordered[j]
		if a.pos != b.pos {
			return a.pos < b.pos
		}
		return a.head.Index < b.head.Index
	})
	for i, lr := range li.ordered {
		lr.ordinal = i
		x.computeLoopMods(fn, lr)
	}
	x.loopCache[fn] = li
	return li
}

// addrRoot walks an address expression to its root.
func addrRoot(v ssa.Value) ssa.Value {
	for {
		switch a := v.(type) {
		case *ssa.FieldAddr:
			v = a.X
		case *ssa.IndexAddr:
			if _, isSlice := a.X.Type().Underlying().(*types.Slice); isSlice {
				return a // element of a slice: heap write of elem type
			}
			v = a.X
		default:
			return v
		}
	}
}

type writeSet struct {
	heaps map[string]types.Type // heaps in which a pre-existing region may be written
	fresh map[string]types.Type // heaps in which only regions allocated by the code itself are written
	all   bool
	alloc bool
}

func newWriteSet() *writeSet {
	return &writeSet{heaps: map[string]types.Type{}, fresh: map[string]types.Type{}}
}

// heapWriteType returns the heap type written by a store through addr.
func (x *Exec) heapWriteType(addr ssa.Value) (types.Type, bool) {
	root := addrRoot(addr)
	switch r := root.(type) {
	case *ssa.IndexAddr: // slice element
		return r.X.Type().Underlying().(*types.Slice).Elem(), true
	case *ssa.Alloc:
		if isLocalCell(r) {
			return nil, false
		}
		et := elemOfPtr(r.Type())
		if at, ok := et.Underlying().(*types.Array); ok {
			return at.Elem(), true
		}
		return et, true
	case *ssa.FreeVar:
		return nil, false
	case *ssa.Global:
		return nil, false
	}
	pt, ok := root.Type().Underlying().(*types.Pointer)
	if !ok {
		return nil, false
	}
	if at, ok := pt.Elem().Underlying().(*types.Array); ok {
		return at.Elem(), true
	}
	return pt.Elem(), true
}

// writes computes (transitively, over statically known callees without
// contracts... and with) the heap types a function may store to.
func (x *Exec) writes(fn *ssa.Function, seen map[*ssa.Function]bool) *writeSet {
	if ws, ok := x.writeCache[fn]; ok {
		return ws
	}
	ws := newWriteSet()
	if seen[fn] {
		return ws
	}
	seen[fn] = true
	if pk := pkgOf(fn); pk == nil || !strings.HasPrefix(pk.Path(), "github.com/peterstace/simplefeatures") {
		// standard-library code: functions that write through their arguments are
		// modelled explicitly (models.go); everything else is assumed not to write
		// memory the verified code can observe (A-std-pure)
		ws.alloc = true
		delete(seen, fn)
		x.writeCache[fn] = ws
		return ws
	}
	if fn.Blocks == nil {
		ws.all = !x.knownPureExternal(fn)
		return ws
	}
	for _, b := range fn.Blocks {
		for _, in := range b.Instrs {
			x.instrWrites(in, ws, seen)
		}
	}
	for _, af := range fn.AnonFuncs {
		sub := x.writes(af, seen)
		ws.merge(sub)
	}
	delete(seen, fn)
	x.writeCache[fn] = ws
	return ws
}

func (ws *writeSet) merge(o *writeSet) {
	for k, t := range o.heaps {
		ws.heaps[k] = t
	}
	for k, t := range o.fresh {
		ws.fresh[k] = t
	}
	ws.all = ws.all || o.all
	ws.alloc = ws.alloc || o.alloc
}

func (x *Exec) instrWrites(in ssa.Instruction, ws *writeSet, seen map[*ssa.Function]bool) {
	switch v := in.(type) {
	case *ssa.Store:
		if t, ok := x.heapWriteType(v.Addr); ok {
			if _, isAlloc := addrRoot(v.Addr).(*ssa.Alloc); isAlloc {
				ws.fresh[x.te.HeapKey(t)] = t // initialisation of a region this code allocated
			} else {
				ws.heaps[x.te.HeapKey(t)] = t
			}
		}
	case *ssa.Alloc:
		if !isLocalCell(v) {
			ws.alloc = true
			et := elemOfPtr(v.Type())
			if at, ok := et.Underlying().(*types.Array); ok {
				et = at.Elem()
			}
			ws.fresh[x.te.HeapKey(et)] = et
		}
	case *ssa.MakeSlice:
		ws.alloc = true
		et := v.Type().Underlying().(*types.Slice).Elem()
		ws.fresh[x.te.HeapKey(et)] = et
	case *ssa.Convert:
		if (isString(v.X.Type()) && isByteSlice(v.Type())) || (isByteSlice(v.X.Type()) && isString(v.Type())) {
			ws.alloc = true
			bt := types.Typ[types.Uint8]
			ws.fresh[x.te.HeapKey(bt)] = bt
		}
	case *ssa.MapUpdate:
		// maps are modelled as ghost state, not heaps
	case ssa.CallInstruction:
		c := v.Common()
		if c.IsInvoke() {
			if strings.HasPrefix(c.Method.Name(), "PutUint") {
				bt := types.Typ[types.Uint8]
				ws.heaps[x.te.HeapKey(bt)] = bt
			}
			if n := c.Method.Name(); n == "Error" || n == "String" {
				return
			}
			// other interface methods: the union of the write sets of every method of
			// that name, of every type of the module that implements the interface
			if iface, ok := c.Value.Type().Underlying().(*types.Interface); ok {
				for _, pkg := range x.prog.AllPackages() {
					if pkg.Pkg == nil || !strings.HasPrefix(pkg.Pkg.Path(), "github.com/peterstace/simplefeatures") {
						continue
					}
					for _, mem := range pkg.Members {
						tm, ok := mem.(*ssa.Type)
						if !ok {
							continue
						}
						for _, T := range []types.Type{tm.Type(), types.NewPointer(tm.Type())} {
							if !types.Implements(T, iface) {
								continue
							}
							if sel := x.prog.MethodSets.MethodSet(T).Lookup(c.Method.Pkg(), c.Method.Name()); sel != nil {
								if fn := x.prog.MethodValue(sel); fn != nil {
									ws.merge(x.writes(fn, seen))
								}
							}
						}
					}
				}
			}
			return
		}
		if b, ok := c.Value.(*ssa.Builtin); ok {
			switch b.Name() {
			case "append", "copy":
				var st types.Type = c.Args[0].Type()
				if sl, ok := st.Underlying().(*types.Slice); ok {
					ws.heaps[x.te.HeapKey(sl.Elem())] = sl.Elem()
				}
				ws.alloc = true
			}
			return
		}
		if callee := c.StaticCallee(); callee != nil {
			if callee.Pkg != nil && callee.Pkg.Pkg.Path() == "container/heap" && x.root != nil {
				if m := x.root.Pkg.Func("verifHeap" + callee.Name()); m != nil {
					callee = m
				}
			}
			sub := x.writes(callee, seen)
			ws.merge(sub)
			return
		}
		// dynamic call: closures of the enclosing function are covered via
		// AnonFuncs; function-typed parameters are assumed not to write
		// memory visible here (assumption A-callback).
	}
}

func (x *Exec) computeLoopMods(fn *ssa.Function, lr *loopRec) {
	cellSet := map[ssa.Value]bool{}
	ws := newWriteSet()
	seen := map[*ssa.Function]bool{}
	for b := range lr.blocks {
		for _, in := range b.Instrs {
			switch v := in.(type) {
			case *ssa.Store:
				root := addrRoot(v.Addr)
				switch r := root.(type) {
				case *ssa.Alloc:
					if isLocalCell(r) {
						cellSet[r] = true
					}
				case *ssa.FreeVar:
					cellSet[r] = true
				}
			case *ssa.Alloc:
				if isLocalCell(v) {
					cellSet[v] = true
				}
			case *ssa.Next:
				if rng, ok := v.Iter.(*ssa.Range); ok && v.IsString {
					cellSet[iterAlloc(rng)] = true
				}
			case ssa.CallInstruction:
				c := v.Common()
				if _, isB := c.Value.(*ssa.Builtin); !isB {
					lr.hasCall = true
				}
				if c.StaticCallee() == nil && !c.IsInvoke() {
					if _, isB := c.Value.(*ssa.Builtin); !isB {
						lr.dynCall = true
					}
				}
				if callee := c.StaticCallee(); callee != nil && callee.Parent() != nil {
					lr.dynCall = true
				}
			}
			x.instrWrites(in, ws, seen)
		}
	}
	if lr.dynCall {
		// closures of the root-most enclosing function may store to captured cells
		top := fn
		for top.Parent() != nil {
			top = top.Parent()
		}
		for _, cv := range x.closureStoredCaptures(top) {
			// map to a value of *this* function: an Alloc of fn or a FreeVar of fn
			switch c := cv.(type) {
			case *ssa.Alloc:
				if c.Parent() == fn {
					cellSet[c] = true
				} else {
					for _, fv := range fn.FreeVars {
						if x.freeVarOrigin(fn, fv) == c {
							cellSet[fv] = true
						}
					}
				}
			}
		}
		sub := newWriteSet()
		var addAnon func(f *ssa.Function)
		addAnon = func(f *ssa.Function) {
			for _, af := range f.AnonFuncs {
				sub.merge(x.writes(af, seen))
				addAnon(af)
			}
		}
		addAnon(top)
		ws.merge(sub)
	}
	for v := range cellSet {
		lr.modCells = append(lr.modCells, v)
	}
	sort.Slice(lr.modCells, func(i, j int) bool { return lr.modCells[i].Name() < lr.modCells[j].Name() })
	lr.modHeaps = ws.heaps
	lr.modFresh = ws.fresh
	lr.modAll = ws.all
	lr.allocs = ws.alloc
}

// freeVarOrigin resolves a free variable to the Alloc it captures (through
// nested closures), or nil.
func (x *Exec) freeVarOrigin(fn *ssa.Function, fv *ssa.FreeVar) *ssa.Alloc {
	parent := fn.Parent()
	if parent == nil {
		return nil
	}
	idx := -1
	for i, f := range fn.FreeVars {
		if f == fv {
			idx = i
		}
	}
	if idx < 0 {
		return nil
	}
	for _, b := range parent.Blocks {
		for _, in := range b.Instrs {
			if mc, ok := in.(*ssa.MakeClosure); ok && mc.Fn == fn {
				switch bv := mc.Bindings[idx].(type) {
				case *ssa.Alloc:
					return bv
				case *ssa.FreeVar:
					return x.freeVarOrigin(parent, bv)
				}
			}
		}
	}
	return nil
}

// closureStoredCaptures lists the Allocs (of top or its closures) that some
// closure nested in top stores to through a captured variable.
func (x *Exec) closureStoredCaptures(top *ssa.Function) []ssa.Value {
	var out []ssa.Value
	var walk func(f *ssa.Function)
	walk = func(f *ssa.Function) {
		for _, af := range f.AnonFuncs {
			for _, b := range af.Blocks {
				for _, in := range b.Instrs {
					if s, ok := in.(*ssa.Store); ok {
						if fv, ok := addrRoot(s.Addr).(*ssa.FreeVar); ok {
							if a := x.freeVarOrigin(af, fv); a != nil {
								out = append(out, a)
							}
						}
					}
				}
			}
			walk(af)
		}
	}
	walk(top)
	return out
}

func (x *Exec) knownPureExternal(fn *ssa.Function) bool {
	return true // external (body-less) functions are modelled explicitly in calls.go
}
