package vc

import (
	"fmt"
	"go/token"
	"go/types"
	"runtime/debug"
	"sort"
	"strings"

	"golang.org/x/tools/go/ssa"
	"golang.org/x/tools/go/ssa/ssautil"
)

var ssautilAllFunctions = ssautil.AllFunctions


// Result of generating VCs for one function.
type UnitResult struct {
	Key         string
	Obligations []*Obligation
	Unsupported string // non-empty: function could not be translated
	Notes       []string
	Inlined     []string
	Opaque      []string
	Contracts   []string // callee contracts used
	Models      []string // stdlib models used
	FloatMode   string
	FloatArith  bool
	Trusted     bool
}

type Program struct {
	Prog *ssa.Program
	Fset *token.FileSet
	DB   *SpecDB
	Pkgs map[string]*ssa.Package // by package name
}

// FindFunc resolves a contract key to an SSA function.
func (p *Program) FindFunc(key string) *ssa.Function {
	i := strings.Index(key, ".")
	if i < 0 {
		return nil
	}
	pkg := p.Pkgs[key[:i]]
	if pkg == nil {
		return nil
	}
	rest := key[i+1:]
	closure := ""
	if j := strings.Index(rest, "$"); j >= 0 {
		closure = rest[j+1:]
		rest = rest[:j]
	}
	var fn *ssa.Function
	if strings.HasPrefix(rest, "(*") {
		// (*T).name
		j := strings.Index(rest, ").")
		tn := rest[2:j]
		mn := rest[j+2:]
		obj := pkg.Pkg.Scope().Lookup(tn)
		if obj == nil {
			return nil
		}
		ms := p.Prog.MethodSets.MethodSet(types.NewPointer(obj.Type()))
		for k := 0; k < ms.Len(); k++ {
			if ms.At(k).Obj().Name() == mn {
				fn = p.Prog.MethodValue(ms.At(k))
			}
		}
	} else if j := strings.Index(rest, "."); j >= 0 {
		tn := rest[:j]
		mn := rest[j+1:]
		obj := pkg.Pkg.Scope().Lookup(tn)
		if obj == nil {
			return nil
		}
		ms := p.Prog.MethodSets.MethodSet(obj.Type())
		for k := 0; k < ms.Len(); k++ {
			if ms.At(k).Obj().Name() == mn {
				fn = p.Prog.MethodValue(ms.At(k))
			}
		}
	} else {
		fn = pkg.Func(rest)
	}
	if fn == nil {
		return nil
	}
	if closure != "" {
		for _, af := range fn.AnonFuncs {
			if strings.TrimPrefix(af.Name(), fn.Name()+"$") == closure {
				return af
			}
		}
		return nil
	}
	return fn
}

func newExec(p *Program, fn *ssa.Function, ct *Contract, fm FloatMode) *Exec {
	s := NewScript()
	x := &Exec{prog: p.Prog, db: p.DB, S: s, te: NewTypeEnv(s, fm), root: fn, rootKey: FuncKey(fn), contract: ct,
		entryHeaps: map[string]string{}, heapTypes: map[string]types.Type{}, ghostSorts: map[string]string{},
		loopCache: map[*ssa.Function]*loopInfo{}, fset: p.Fset, MaxInline: 8}
	x.writeCache = map[*ssa.Function]*writeSet{}
	x.inlined = map[string]bool{}
	x.opaque = map[string]bool{}
	x.usedContracts = map[string]bool{}
	x.modelsUsed = map[string]bool{}
	return x
}

// VerifyFunc generates all obligations for one function under contract.
func (p *Program) VerifyFunc(key string) (res *UnitResult) {
	ct := p.DB.Contracts[key]
	res = &UnitResult{Key: key}
	fn := p.FindFunc(key)
	if fn == nil {
		res.Unsupported = "function not found in the current source: " + key
		return res
	}
	fm := FloatIEEE
	if ct != nil && (ct.Mode == "real" || ct.Mode == "order") {
		fm = FloatReal
	}
	res.FloatMode = "ieee"
	if fm == FloatReal {
		res.FloatMode = "real"
		if ct != nil && ct.Mode == "order" {
			res.FloatMode = "order"
		}
	}
	if ct != nil && ct.Trusted {
		res.Trusted = true
		return res
	}
	cases := []string{""}
	if ct != nil && ct.Split != "" {
		cases = ct.SplitVals
	}
	for _, cs := range cases {
		x := newExec(p, fn, ct, fm)
		x.splitCase = cs
		func() {
			defer func() {
				if r := recover(); r != nil {
					switch e := r.(type) {
					case unsupported:
						res.Unsupported = e.msg
					case specFail:
						res.Unsupported = "spec error: " + e.msg
					default:
						res.Unsupported = fmt.Sprintf("internal error: %v\n%s", r, debug.Stack())
					}
				}
			}()
			x.verifyRoot()
		}()
		res.Obligations = append(res.Obligations, x.obls...)
		res.Notes = append(res.Notes, x.Notes...)
		res.Inlined = append(res.Inlined, keys(x.inlined)...)
		res.Opaque = append(res.Opaque, keys(x.opaque)...)
		res.Contracts = append(res.Contracts, keys(x.usedContracts)...)
		res.Models = append(res.Models, keys(x.modelsUsed)...)
		res.FloatArith = res.FloatArith || x.usedFloatArith
		if ct != nil && ct.Mode == "order" {
			if x.usedFloatArith && res.Unsupported == "" {
				res.Unsupported = "mode order: the function performs floating-point arithmetic, so the order-only model is not exact"
			}
			res.Notes = append(res.Notes, "A-order: "+key+" is verified with floats as reals; exact because the function only copies and compares floats and its inputs are finite (precondition)")
		}
	}
	res.Notes = uniq(res.Notes)
	res.Inlined = uniq(res.Inlined)
	res.Opaque = uniq(res.Opaque)
	res.Contracts = uniq(res.Contracts)
	res.Models = uniq(res.Models)
	return res
}

func keys(m map[string]bool) []string {
	var out []string
	for k := range m {
		out = append(out, k)
	}
	sort.Strings(out)
	return out
}

func uniq(in []string) []string {
	m := map[string]bool{}
	var out []string
	for _, s := range in {
		if !m[s] {
			m[s] = true
			out = append(out, s)
		}
	}
	sort.Strings(out)
	return out
}

func (x *Exec) verifyRoot() {
	fn := x.root
	ct := x.contract
	st := &State{cells: map[cellKey]Val{}, heaps: map[string]string{}, ghost: map[string]string{}, pc: "true"}
	st.nr = x.S.Const("nr", "Int")
	x.assume(st, "(>= "+st.nr+" 1)")
	x.entry = st
	x.rf = x.S.Const("rf", "Int")
	x.nextFrame++
	fr := &Frame{id: x.nextFrame, fn: fn, env: map[ssa.Value]Val{}, heapLocal: map[*ssa.Alloc]string{}}
	x.rootFrame = fr
	x.rootArgs = map[string]Val{}
	// parameters
	for _, p := range fn.Params {
		var v Val
		if _, isSig := p.Type().Underlying().(*types.Signature); isSig {
			v = Val{S: x.S.Const("fn_"+sanitize(p.Name())+"_", "Int"), T: p.Type()}
		} else {
			v = Val{S: x.S.Const("p_"+sanitize(p.Name())+"_", x.te.Sort(p.Type())), T: p.Type()}
			x.wfAssume(st, v)
		}
		if pt, ok := p.Type().Underlying().(*types.Pointer); ok && v.S != "" {
			// the pointee of a non-nil pointer parameter is a well-formed value
			if _, isArr := pt.Elem().Underlying().(*types.Array); !isArr {
				pv := x.heapLoad(st, pt.Elem(), "(p_reg "+v.S+")", "(p_idx "+v.S+")")
				x.assume(st, Imp("(not (= (p_reg "+v.S+") 0))", x.wf(pv, pt.Elem(), st, 0)))
			}
		}
		fr.env[p] = v
		x.rootArgs[p.Name()] = v
		x.inputs = append(x.inputs, InputVar{Name: p.Name(), Term: v.S, Type: shortTypeName(p.Type())})
	}
	// free variables of a closure verified stand-alone
	var selfRefs []*ssa.FreeVar
	for _, fv := range fn.FreeVars {
		// model captured variable as a heap cell of its own
		et := elemOfPtr(fv.Type())
		if _, isSig := et.Underlying().(*types.Signature); isSig {
			if x.capturesSelf(fn, fv) {
				selfRefs = append(selfRefs, fv)
				continue
			}
			// captured function variable: an opaque callback
			fa := &ssa.Alloc{Comment: fv.Name()}
			k := cellKey{fr.id, fa}
			cv := Val{S: x.S.Const("fn_"+sanitize(fv.Name())+"_", "Int"), T: et}
			st.cells[k] = cv
			fr.env[fv] = Val{DP: &DPtr{Cell: &k}, T: fv.Type()}
			x.rootArgs[fv.Name()] = cv
			continue
		}
		// ordinary captured variable: a local cell with an unconstrained (well-formed) value
		fa := &ssa.Alloc{Comment: fv.Name()}
		k := cellKey{fr.id, fa}
		cv := Val{S: x.S.Const("fv_"+sanitize(fv.Name())+"_", x.te.Sort(et)), T: et}
		x.wfAssume(st, cv)
		st.cells[k] = cv
		fr.env[fv] = Val{DP: &DPtr{Cell: &k}, T: fv.Type()}
		x.rootArgs[fv.Name()] = cv
		x.inputs = append(x.inputs, InputVar{Name: fv.Name(), Term: cv.S, Type: shortTypeName(et)})
	}
	for _, fv := range selfRefs {
		fa := &ssa.Alloc{Comment: fv.Name()}
		k := cellKey{fr.id, fa}
		var bs []Val
		for _, f2 := range fn.FreeVars {
			bs = append(bs, fr.env[f2]) // self-reference slots filled below
		}
		clo := &Closure{Fn: fn, Bindings: bs}
		st.cells[k] = Val{Clo: clo, T: elemOfPtr(fv.Type())}
		fr.env[fv] = Val{DP: &DPtr{Cell: &k}, T: fv.Type()}
		for i, f2 := range fn.FreeVars {
			if f2 == fv {
				clo.Bindings[i] = fr.env[fv]
			}
		}
	}
	// ghost variables
	if ct != nil {
		x.declareGhosts(st, ct)
	}
	// split case
	if x.splitCase != "" && ct != nil {
		sc := &SpecCtx{x: x, st: st, old: st, vars: x.rootArgs, pkg: pkgOf(fn)}
		pe, err := ParseSpecExpr(ct.Split)
		if err != nil {
			unsup("bad split expression %s", ct.Split)
		}
		pv := sc.Eval(pe)
		e, err := ParseSpecExpr(x.splitCase)
		if err != nil {
			unsup("bad split value %s", x.splitCase)
		}
		cv := sc.Eval(e)
		x.assume(st, Eq(pv.S, cv.S))
	}
	// implicit: pointer receiver non-nil
	if fn.Signature.Recv() != nil {
		if _, isPtr := fn.Signature.Recv().Type().Underlying().(*types.Pointer); isPtr {
			x.assume(st, "(not (= (p_reg "+fr.env[fn.Params[0]].S+") 0))")
			st.nonNil = map[string]bool{"(p_reg " + fr.env[fn.Params[0]].S + ")": true}
		}
	}
	// preconditions
	pre := st.clone()
	if ct != nil {
		sc := &SpecCtx{x: x, st: st, old: st, vars: x.rootArgs, pkg: pkgOf(fn)}
		for _, cl := range ct.Requires {
			g := x.evalClause(sc, cl)
			x.assume(st, g)
		}
		x.allocBound = ct.AllocBound
		// frame skolem: rf is an arbitrary pre-existing region not in modifies
		parts := []string{"(<= 1 " + x.rf + ")", "(< " + x.rf + " " + st.nr + ")"}
		for _, m := range ct.Modifies {
			v := sc.Eval(m.Expr)
			if v.S != "" && v.T != nil {
				x.assume(st, x.wf(v.S, v.T, st, 0))
			}
			reg, et := x.regionOf(v)
			reg = x.S.Define("modreg", "Int", reg)
			x.modRegs = append(x.modRegs, modReg{reg, x.te.HeapKey(et)})
		}
		x.assume(st, And(parts...))
	} else {
		x.assume(st, And("(<= 1 "+x.rf+")", "(< "+x.rf+" "+st.nr+")"))
	}
	pre.pc = st.pc
	entrySnap := st.clone()
	x.entry = entrySnap
	x.cover(st, "pre")
	x.stack = []*ssa.Function{fn}
	rets, out := x.execBody(fr, st)
	if out == nil {
		return // no normal exit: only safety obligations
	}
	// postconditions
	if ct != nil {
		mkPost := func(pst *State, prets []Val) *SpecCtx {
			post := &SpecCtx{x: x, st: pst, old: entrySnap, vars: map[string]Val{}, pkg: pkgOf(fn)}
			for k, v := range x.rootArgs {
				post.vars[k] = v
			}
			rets := append([]Val(nil), prets...)
			var res Val
			switch len(rets) {
			case 0:
			case 1:
				res = rets[0]
				if res.DP != nil {
					res = Val{S: x.ptrTerm(res), T: fn.Signature.Results().At(0).Type()}
				}
			default:
				for i := range rets {
					if rets[i].DP != nil {
						rets[i] = Val{S: x.ptrTerm(rets[i]), T: fn.Signature.Results().At(i).Type()}
					}
				}
				res = Val{Tup: rets}
			}
			bindResults(post.vars, fn, res)
			// captured variables: current value in the post-state, entry value inside old()
			for _, fv := range fn.FreeVars {
				if bv, ok := fr.env[fv]; ok && bv.DP != nil && bv.DP.Cell != nil {
					if cur, ok := pst.cells[*bv.DP.Cell]; ok && cur.Clo == nil && cur.Fn == nil && cur.DP == nil && cur.S != "!unmergeable" {
						if entry, ok := x.rootArgs[fv.Name()]; ok && entry.S != cur.S {
							if post.oldVars == nil {
								post.oldVars = map[string]Val{}
							}
							post.oldVars[fv.Name()] = entry
							post.vars[fv.Name()] = cur
						}
					}
				}
			}
			return post
		}
		if len(x.rootExits) > 1 {
			// one obligation per clause: the conjunction, over the exits, of
			// "this exit's path condition implies the clause in this exit's state"
			posts := make([]*SpecCtx, len(x.rootExits))
			for i, e := range x.rootExits {
				posts[i] = mkPost(e.st, e.rets)
			}
			base := out.clone()
			base.pc = "true"
			for j, cl := range ct.Ensures {
				if ct.AssumeInv && strings.HasPrefix(cl.Name, "typeinv-") {
					x.note("type invariant of the result of " + x.rootKey + " is assumed, not proved (assumeinv)")
					continue
				}
				var parts, gs []string
				for i, e := range x.rootExits {
					g := x.evalClause(posts[i], cl)
					gs = append(gs, g)
					parts = append(parts, Imp(e.st.pc, g))
				}
				x.emit(base, x.rootKey+"/"+fmt.Sprintf("post#%s", clauseLabel(cl, j)), "post", x.rootKey, fn.Pos(), And(parts...), "postcondition: "+cl.Src)
				for i, e := range x.rootExits {
					x.assume(e.st, gs[i])
				}
			}
		} else {
			post := mkPost(out, rets)
			for j, cl := range ct.Ensures {
				if ct.AssumeInv && strings.HasPrefix(cl.Name, "typeinv-") {
					x.note("type invariant of the result of " + x.rootKey + " is assumed, not proved (assumeinv)")
					continue
				}
				g := x.evalClause(post, cl)
				x.emitNamed(out, fmt.Sprintf("post#%s", clauseLabel(cl, j)), "post", nil, fn.Pos(), g, "postcondition: "+cl.Src)
			}
		}
	}
	// frame: heaps changed since entry keep the skolem region
	var hk []string
	for k := range out.heaps {
		hk = append(hk, k)
	}
	sort.Strings(hk)
	for _, k := range hk {
		h := out.heaps[k]
		h0 := x.entryHeaps[k]
		if h == h0 {
			continue
		}
		t := x.heapTypes[k]
		x.emitNamed(out, "frame#"+sanitize(k), "frame", nil, fn.Pos(), x.frameFact(h, t), "writes to caller-visible memory outside the modifies clause (heap of "+k+")")
	}
}

// specCallGo inlines a pure Go function inside a spec expression.
func (x *Exec) specCallGo(c *SpecCtx, fn *ssa.Function, args []Val) Val {
	x.quiet++
	defer func() { x.quiet-- }()
	x.nextFrame++
	nf := &Frame{id: x.nextFrame, fn: fn, env: map[ssa.Value]Val{}, depth: 2, heapLocal: map[*ssa.Alloc]string{}}
	for i, p := range fn.Params {
		nf.env[p] = args[i]
	}
	st := c.st.clone()
	st.pc = "true"
	x.stack = append(x.stack, fn)
	rets, out := x.execBody(nf, st)
	x.stack = x.stack[:len(x.stack)-1]
	if out == nil || len(rets) == 0 {
		sfail("spec call of %s: function has no normal exit or no result", fn.Name())
	}
	if len(rets) > 1 {
		return Val{Tup: rets}
	}
	return rets[0]
}

// callbackHook lets a contract attach ghost effects to calls of a function
// parameter.  (Implemented by ghost.go.)
func (x *Exec) callbackHook(st *State, fr *Frame, in *ssa.Call, fv ssa.Value, args []Val, res Val) {
	x.ghostCallback(st, fr, in, fv, args, res)
}

// FuncsInFiles lists the keys of all source functions (not closures) whose
// declaration is in a file whose path contains pat.
func (p *Program) FuncsInFiles(pat string) []string {
	var out []string
	for fn := range ssautilAllFunctions(p.Prog) {
		if fn.Synthetic != "" || fn.Parent() != nil || fn.Pkg == nil || fn.Blocks == nil {
			continue
		}
		if _, ok := p.Pkgs[fn.Pkg.Pkg.Name()]; !ok {
			continue
		}
		f := p.Fset.Position(fn.Pos()).Filename
		if strings.Contains(f, pat) && !strings.HasSuffix(f, "_test.go") {
			out = append(out, FuncKey(fn))
		}
	}
	sort.Strings(out)
	return out
}

// VerifyLemmas turns each stand-alone lemma tagged with prop into an obligation.
func (p *Program) VerifyLemmas(prop string) []*Obligation {
	var out []*Obligation
	for _, lm := range p.DB.Lemmas {
		has := false
		for _, q := range lm.Props {
			if q == prop {
				has = true
			}
		}
		if !has {
			continue
		}
		out = append(out, p.VerifyLemma(lm)...)
	}
	return out
}

func (p *Program) VerifyLemma(lm *Lemma) (obs []*Obligation) {
	fm := FloatIEEE
	if lm.Mode == "real" {
		fm = FloatReal
	}
	s := NewScript()
	x := &Exec{prog: p.Prog, db: p.DB, S: s, te: NewTypeEnv(s, fm), rootKey: lm.Pkg + "/lemma/" + lm.Name,
		entryHeaps: map[string]string{}, heapTypes: map[string]types.Type{}, ghostSorts: map[string]string{},
		loopCache: map[*ssa.Function]*loopInfo{}, fset: p.Fset, MaxInline: 8}
	x.writeCache = map[*ssa.Function]*writeSet{}
	x.inlined = map[string]bool{}
	x.opaque = map[string]bool{}
	x.usedContracts = map[string]bool{}
	x.modelsUsed = map[string]bool{}
	x.contract = &Contract{Key: x.rootKey, Props: lm.Props}
	st := &State{cells: map[cellKey]Val{}, heaps: map[string]string{}, ghost: map[string]string{}, pc: "true"}
	st.nr = x.S.Const("nr", "Int")
	x.assume(st, "(>= "+st.nr+" 1)")
	x.entry = st
	x.rf = x.S.Const("rf", "Int")
	var pkg *types.Package
	if sp := p.Pkgs[lm.Pkg]; sp != nil {
		pkg = sp.Pkg
	}
	defer func() {
		if r := recover(); r != nil {
			msg := fmt.Sprint(r)
			switch e := r.(type) {
			case unsupported:
				msg = e.msg
			case specFail:
				msg = e.msg
			}
			// an untranslatable lemma is an obligation that cannot be discharged
			obs = []*Obligation{{Name: x.rootKey, Kind: "lemma", Func: x.rootKey, Site: x.rootKey, Props: lm.Props,
				Script: "(declare-const untranslatable Bool)\n(assert untranslatable)\n(check-sat)\n", Descr: "lemma cannot be translated: " + msg}}
		}
	}()
	sc := &SpecCtx{x: x, st: st, old: st, vars: map[string]Val{}, pkg: pkg}
	body := lm.Body
	// skolemise the outermost universal quantifiers: proving (forall v. P) is
	// refuting P for fresh constants v
	for {
		q, ok := body.(*SQuant)
		if !ok || !q.Forall {
			break
		}
		for i, bv := range q.Vars {
			if i < len(q.Types) && q.Types[i] != "" {
				t := sc.lookupType(q.Types[i])
				v := Val{S: x.S.Const("sk_"+bv+"_", x.te.Sort(t)), T: t}
				x.wfAssume(st, v)
				sc.vars[bv] = v
				x.inputs = append(x.inputs, InputVar{Name: bv, Term: v.S, Type: shortTypeName(t)})
			} else {
				v := specVal(x.S.Const("sk_"+bv+"_", "Int"), "Int")
				sc.vars[bv] = v
				x.inputs = append(x.inputs, InputVar{Name: bv, Term: v.S, Type: "int"})
			}
		}
		body = q.Body
	}
	g := sc.Bool(body)
	x.emit(st, x.rootKey, "lemma", x.rootKey, token.NoPos, g, "lemma: "+lm.Src)
	return x.obls
}

// capturesSelf: the free variable is the variable the closure itself is
// assigned to in its parent (recursive closure).
func (x *Exec) capturesSelf(fn *ssa.Function, fv *ssa.FreeVar) bool {
	a := x.freeVarOrigin(fn, fv)
	if a == nil {
		return false
	}
	refs := a.Referrers()
	if refs == nil {
		return false
	}
	n := 0
	self := false
	for _, r := range *refs {
		if s, ok := r.(*ssa.Store); ok && s.Addr == a {
			n++
			if mc, ok := s.Val.(*ssa.MakeClosure); ok && mc.Fn == fn {
				self = true
			}
		}
	}
	return self && n == 1
}

func (x *Exec) declareGhosts(st *State, ct *Contract) {
	for _, g := range ct.Ghost {
		name, sort := g, "Int"
		if i := strings.Index(g, ":"); i >= 0 {
			name = strings.TrimSpace(g[:i])
			sort = strings.TrimSpace(g[i+1:])
		}
		if _, ok := st.ghost[name]; ok {
			continue
		}
		x.ghostSorts[name] = sort
		st.ghost[name] = x.S.Const("g_"+name+"_", sort)
	}
}

func (x *Exec) havocGhosts(st *State, ct *Contract) {
	for _, g := range ct.Ghost {
		name, sort := g, "Int"
		if i := strings.Index(g, ":"); i >= 0 {
			name = strings.TrimSpace(g[:i])
			sort = strings.TrimSpace(g[i+1:])
		}
		x.ghostSorts[name] = sort
		st.ghost[name] = x.S.Const("g_"+name+"_", sort)
	}
}

// ApplySweepsAndTypeInvs creates the automatic contracts requested by sweep
// directives and adds the type invariants as pre/postconditions of every
// contract.
func (p *Program) ApplySweepsAndTypeInvs() {
	for _, sw := range p.DB.Sweeps {
		for _, key := range p.FuncsInFiles(sw.Pattern) {
			if !strings.HasPrefix(key, sw.Pkg+".") {
				continue
			}
			skip := false
			for _, ex := range sw.Exclude {
				if strings.HasSuffix(key, "."+ex) || strings.HasSuffix(key, ")."+ex) {
					skip = true
				}
			}
			if skip {
				continue
			}
			if ct, ok := p.DB.Contracts[key]; ok {
				// explicit contract: make sure it serves the sweep's properties too
				for _, pr := range sw.Props {
					has := false
					for _, q := range ct.Props {
						if q == pr {
							has = true
						}
					}
					if !has {
						ct.Props = append(append([]string{}, ct.Props...), pr)
					}
				}
				continue
			}
			p.DB.Contracts[key] = &Contract{Key: key, Pkg: sw.Pkg, Loops: map[int]*LoopSpec{}, Props: sw.Props, Auto: true, File: "sweep " + sw.Pattern}
		}
	}
	if len(p.DB.TypeInvs) == 0 {
		return
	}
	for key, ct := range p.DB.Contracts {
		if ct.NoTypeInv {
			continue
		}
		fn := p.FindFunc(key)
		if fn == nil {
			continue
		}
		inv := func(t types.Type) string {
			n, ok := t.(*types.Named)
			if !ok {
				return ""
			}
			for _, ti := range p.DB.TypeInvs {
				if n.Obj().Name() == ti.Type && n.Obj().Pkg() != nil && n.Obj().Pkg().Name() == ti.Pkg {
					return ti.Pred
				}
			}
			return ""
		}
		var pre, post []*Clause
		elemInv := func(t types.Type) string {
			if sl, ok := t.Underlying().(*types.Slice); ok {
				if _, isNamed := t.(*types.Named); !isNamed {
					return inv(sl.Elem())
				}
			}
			return ""
		}
		mkAll := func(pn, name string) SExpr {
			// forall k :: 0 <= k && k < len(name) ==> pn(name[k])
			k := &SIdent{"k"}
			rng := &SBin{"&&", &SBin{"<=", &SNum{"0"}, k}, &SBin{"<", k, &SCall{Fn: "len", Args: []SExpr{&SIdent{name}}}}}
			return &SQuant{Forall: true, Vars: []string{"k"}, Types: []string{""}, Body: &SBin{"==>", rng, &SCall{Fn: pn, Args: []SExpr{&SIndex{&SIdent{name}, k}}}}}
		}
		for _, prm := range fn.Params {
			if prm.Name() == "_" {
				continue
			}
			if pn := inv(prm.Type()); pn != "" {
				pre = append(pre, &Clause{Expr: &SCall{Fn: pn, Args: []SExpr{&SIdent{prm.Name()}}}, Src: pn + "(" + prm.Name() + ")", Name: "typeinv-" + prm.Name(), File: ct.File, Line: ct.Line})
			} else if pn := elemInv(prm.Type()); pn != "" {
				pre = append(pre, &Clause{Expr: mkAll(pn, prm.Name()), Src: "forall k :: " + pn + "(" + prm.Name() + "[k])", Name: "typeinv-" + prm.Name(), File: ct.File, Line: ct.Line})
			}
		}
		for _, fv := range fn.FreeVars {
			if pt, ok := fv.Type().Underlying().(*types.Pointer); ok {
				if pn := inv(pt.Elem()); pn != "" {
					pre = append(pre, &Clause{Expr: &SCall{Fn: pn, Args: []SExpr{&SIdent{fv.Name()}}}, Src: pn + "(" + fv.Name() + ")", Name: "typeinv-" + fv.Name(), File: ct.File, Line: ct.Line})
				}
			}
		}
		res := fn.Signature.Results()
		for i := 0; i < res.Len(); i++ {
			rn := "result"
			if res.Len() > 1 {
				rn = fmt.Sprintf("result%d", i)
			}
			if pn := inv(res.At(i).Type()); pn != "" {
				post = append(post, &Clause{Expr: &SCall{Fn: pn, Args: []SExpr{&SIdent{rn}}}, Src: pn + "(" + rn + ")", Name: "typeinv-" + rn, File: ct.File, Line: ct.Line})
			} else if pn := elemInv(res.At(i).Type()); pn != "" {
				post = append(post, &Clause{Expr: mkAll(pn, rn), Src: "forall k :: " + pn + "(" + rn + "[k])", Name: "typeinv-" + rn, File: ct.File, Line: ct.Line})
			}
		}
		ct.Requires = append(pre, ct.Requires...)
		ct.Ensures = append(ct.Ensures, post...)
	}
}
