package vc

import (
	"fmt"
	"go/token"
	"go/types"
	"sort"
	"strings"
	"sync"

	"golang.org/x/tools/go/ssa"
)

type exitRec struct {
	st   *State
	rets []Val
}

// execBody symbolically executes fn's body from st; returns merged exit state
// (nil if no normal exit) and the return values.
func (x *Exec) execBody(fr *Frame, st *State) ([]Val, *State) {
	fn := fr.fn
	if fn.Blocks == nil {
		unsup("function %s has no body", fn.Name())
	}
	if fn.Recover != nil {
		// functions with defer+recover are outside the subset
		unsup("function %s uses recover", fn.Name())
	}
	li := x.loopInfo(fn)
	in := map[*ssa.BasicBlock][]*State{}
	in[fn.Blocks[0]] = []*State{st}
	var exits []exitRec
	for _, b := range li.rpo {
		ins := in[b]
		if len(ins) == 0 {
			continue
		}
		delete(in, b)
		cur := x.merge(ins)
		if cur.pc == "false" {
			continue
		}
		if lr := li.loops[b]; lr != nil {
			cur = x.enterLoop(fr, lr, cur)
		}
		dead := false
		for _, instr := range b.Instrs {
			if dead {
				break
			}
			switch v := instr.(type) {
			case *ssa.DebugRef, *ssa.RunDefers:
			case *ssa.Defer, *ssa.Go, *ssa.Select, *ssa.Send, *ssa.MakeChan:
				unsup("%T in %s", v, fn.Name())
			case *ssa.If:
				c := x.term(x.value(fr, cur, v.Cond))
				tS := cur.clone()
				x.branch(tS, c)
				fS := cur
				x.branch(fS, Not(c))
				x.flow(fr, li, in, b, b.Succs[0], tS)
				x.flow(fr, li, in, b, b.Succs[1], fS)
			case *ssa.Jump:
				x.flow(fr, li, in, b, b.Succs[0], cur)
			case *ssa.Return:
				var rets []Val
				for _, r := range v.Results {
					rets = append(rets, x.value(fr, cur, r))
				}
				exits = append(exits, exitRec{cur, rets})
			case *ssa.Panic:
				x.oblige(cur, fr, v, "panic", "false", "explicit panic reachable")
				dead = true
			case *ssa.Store:
				val := x.value(fr, cur, v.Val)
				addr := x.value(fr, cur, v.Addr)
				x.store(cur, fr, v, x.toDPtr(addr), val)
			case ssa.Value:
				val := x.instrValue(fr, cur, v, instr)
				fr.env[v] = val
				if cur.pc == "false" {
					dead = true
				}
			case *ssa.MapUpdate:
				x.mapUpdate(cur, fr, v)
			default:
				unsup("instruction %T", instr)
			}
		}
	}
	if fr.fn == x.root && len(x.stack) == 1 {
		// the root's exits are kept apart: postconditions are evaluated in each
		// exit's own state (no ite-merged heaps in the goals)
		x.rootExits = nil
		for _, e := range exits {
			if e.st.pc != "false" {
				x.rootExits = append(x.rootExits, exitRec{e.st.clone(), e.rets})
			}
		}
	}
	if len(exits) == 0 {
		return nil, nil
	}
	if len(exits) == 1 {
		return exits[0].rets, exits[0].st
	}
	// merge exits
	sts := make([]*State, len(exits))
	for i, e := range exits {
		sts[i] = e.st
	}
	// filter infeasible
	var live []exitRec
	for _, e := range exits {
		if e.st.pc != "false" {
			live = append(live, e)
		}
	}
	if len(live) == 0 {
		return nil, nil
	}
	if len(live) == 1 {
		return live[0].rets, live[0].st
	}
	exits = live
	sts = sts[:0]
	for _, e := range exits {
		sts = append(sts, e.st)
	}
	out := x.merge(sts)
	n := len(exits[0].rets)
	rets := make([]Val, n)
	for i := 0; i < n; i++ {
		t := exits[0].rets[i].T
		allSame := true
		for _, e := range exits[1:] {
			if !sameGoVal(e.rets[i], exits[0].rets[i]) {
				allSame = false
			}
		}
		if allSame {
			rets[i] = exits[0].rets[i]
			continue
		}
		term := x.term(exits[len(exits)-1].rets[i])
		for j := len(exits) - 2; j >= 0; j-- {
			term = Ite(exits[j].st.pc, x.term(exits[j].rets[i]), term)
		}
		rets[i] = Val{S: x.S.Define("ret", x.te.Sort(t), term), T: t}
	}
	return rets, out
}

func (x *Exec) flow(fr *Frame, li *loopInfo, in map[*ssa.BasicBlock][]*State, from, to *ssa.BasicBlock, st *State) {
	if li.backEdge[[2]*ssa.BasicBlock{from, to}] {
		x.closeLoop(fr, li.loops[to], st)
		return
	}
	// φ-nodes in NaiveForm exist only for && / || : evaluate per edge into a hidden cell
	for _, instr := range to.Instrs {
		phi, ok := instr.(*ssa.Phi)
		if !ok {
			break
		}
		for i, p := range to.Preds {
			if p == from {
				v := x.value(fr, st, phi.Edges[i])
				k := cellKey{fr.id, phiCell(fr, phi)}
				st.cells[k] = Val{S: x.term(v), T: phi.Type()}
			}
		}
	}
	in[to] = append(in[to], st)
}

// phiCell returns a pseudo-alloc key for a phi node.
var phiCells = map[*ssa.Phi]*ssa.Alloc{}
var phiMu sync.Mutex

func phiCell(fr *Frame, phi *ssa.Phi) *ssa.Alloc {
	phiMu.Lock()
	defer phiMu.Unlock()
	if a, ok := phiCells[phi]; ok {
		return a
	}
	a := &ssa.Alloc{Comment: "phi"}
	phiCells[phi] = a
	return a
}

func (x *Exec) instrValue(fr *Frame, st *State, v ssa.Value, instr ssa.Instruction) Val {
	switch in := v.(type) {
	case *ssa.Alloc:
		return x.alloc(st, fr, in)
	case *ssa.BinOp:
		return x.binop(st, fr, in)
	case *ssa.UnOp:
		return x.unop(st, fr, in)
	case *ssa.Call:
		return x.call(st, fr, in)
	case *ssa.ChangeType:
		val := x.value(fr, st, in.X)
		val.T = in.Type()
		return val
	case *ssa.ChangeInterface:
		val := x.value(fr, st, in.X)
		val.T = in.Type()
		return val
	case *ssa.Convert:
		return x.convert(st, fr, in)
	case *ssa.Extract:
		t := x.value(fr, st, in.Tuple)
		if t.Tup == nil {
			unsup("extract from non-tuple")
		}
		return t.Tup[in.Index]
	case *ssa.Field:
		sv := x.value(fr, st, in.X)
		si := x.te.structOf(in.X.Type())
		val := Val{S: "(" + si.fields[in.Field] + " " + x.term(sv) + ")", T: in.Type()}
		return val
	case *ssa.FieldAddr:
		return x.fieldAddr(st, fr, in)
	case *ssa.Index:
		av := x.value(fr, st, in.X)
		i := x.term(x.value(fr, st, in.Index))
		if isString(in.X.Type()) {
			s := x.term(av)
			x.oblige(st, fr, in, "idx", And("(<= 0 "+i+")", "(< "+i+" (s_len "+s+"))"), "string index out of range")
			bt := types.Typ[types.Uint8]
			v := Val{S: x.S.Define("ch", "Int", x.heapLoad(st, bt, "(s_reg "+s+")", "(+ (s_off "+s+") "+i+")")), T: in.Type()}
			x.wfAssume(st, v)
			return v
		}
		at, ok := in.X.Type().Underlying().(*types.Array)
		if !ok {
			unsup("index on %s", in.X.Type())
		}
		x.oblige(st, fr, in, "idx", And("(<= 0 "+i+")", fmt.Sprintf("(< %s %d)", i, at.Len())), "array index out of range")
		return Val{S: "(select " + x.term(av) + " " + i + ")", T: in.Type()}
	case *ssa.IndexAddr:
		return x.indexAddr(st, fr, in)
	case *ssa.Lookup:
		return x.lookup(st, fr, in)
	case *ssa.MakeClosure:
		fn := in.Fn.(*ssa.Function)
		var bs []Val
		for _, b := range in.Bindings {
			bs = append(bs, x.value(fr, st, b))
		}
		return Val{Clo: &Closure{Fn: fn, Bindings: bs}, T: in.Type()}
	case *ssa.MakeInterface:
		return x.makeInterface(st, fr, in)
	case *ssa.MakeMap:
		return x.makeMap(st, fr, in)
	case *ssa.MakeSlice:
		return x.makeSlice(st, fr, in)
	case *ssa.Phi:
		k := cellKey{fr.id, phiCell(fr, in)}
		val, ok := st.cells[k]
		if !ok {
			unsup("phi without incoming value")
		}
		return val
	case *ssa.Slice:
		return x.sliceInstr(st, fr, in)
	case *ssa.TypeAssert:
		return x.typeAssert(st, fr, in)
	case *ssa.Range:
		return x.rangeInstr(st, fr, in)
	case *ssa.Next:
		return x.nextInstr(st, fr, in)
	case *ssa.MultiConvert, *ssa.SliceToArrayPointer:
		unsup("%T", in)
	}
	unsup("value instruction %T", v)
	return Val{}
}

// ---------- loops ----------

func (x *Exec) loopSpec(fr *Frame, lr *loopRec) *LoopSpec {
	c := x.db.Contracts[FuncKey(fr.fn)]
	if c == nil {
		return nil
	}
	return c.Loops[lr.ordinal]
}

func (x *Exec) cellKeyOf(fr *Frame, v ssa.Value) (cellKey, bool) {
	switch a := v.(type) {
	case *ssa.Alloc:
		return cellKey{fr.id, a}, true
	case *ssa.FreeVar:
		bv, ok := fr.env[a]
		if ok && bv.DP != nil && bv.DP.Cell != nil && len(bv.DP.Path) == 0 {
			return *bv.DP.Cell, true
		}
	}
	return cellKey{}, false
}

func (x *Exec) loopName(fr *Frame, lr *loopRec) string {
	n := fmt.Sprintf("L%d", lr.ordinal)
	if fr.fn != x.root {
		n += "@" + FuncKey(fr.fn)
	}
	return n
}

func (x *Exec) evalClause(sc *SpecCtx, cl *Clause) (res string) {
	defer func() {
		if r := recover(); r != nil {
			if sf, ok := r.(specFail); ok {
				panic(unsupported{fmt.Sprintf("spec error at %s:%d: %s", cl.File, cl.Line, sf.msg)})
			}
			panic(r)
		}
	}()
	return sc.Bool(cl.Expr)
}

func (x *Exec) invCtx(fr *Frame, lr *loopRec, st *State) *SpecCtx {
	vars := map[string]Val{}
	if fr.fn == x.root {
		for k, v := range x.rootArgs {
			vars["old_"+k] = v
		}
	}
	sc := &SpecCtx{x: x, st: st, old: x.entry, vars: vars, fr: fr, loopPos: lr.pos, pkg: pkgOf(fr.fn), loopHead: lr.head}
	// captured variables of a closure: current value, and entry value inside old()
	for _, fv := range fr.fn.FreeVars {
		bv, ok := fr.env[fv]
		if !ok || bv.DP == nil || bv.DP.Cell == nil {
			continue
		}
		cur, ok := st.cells[*bv.DP.Cell]
		if !ok || cur.Clo != nil || cur.Fn != nil || cur.DP != nil || cur.S == "!unmergeable" {
			continue
		}
		vars[fv.Name()] = cur
		if fr.fn == x.root {
			if entry, ok := x.rootArgs[fv.Name()]; ok {
				if sc.oldVars == nil {
					sc.oldVars = map[string]Val{}
				}
				sc.oldVars[fv.Name()] = entry
			}
		}
	}
	return sc
}

func pkgOf(fn *ssa.Function) *types.Package {
	for fn.Pkg == nil && fn.Parent() != nil {
		fn = fn.Parent()
	}
	if fn.Pkg == nil {
		return nil
	}
	return fn.Pkg.Pkg
}

func (x *Exec) enterLoop(fr *Frame, lr *loopRec, st *State) *State {
	ls := x.loopSpec(fr, lr)
	name := x.loopName(fr, lr)
	// 1. invariants hold on entry
	if ls != nil {
		for j, cl := range ls.Invariants {
			g := x.evalClause(x.invCtx(fr, lr, st), cl)
			x.emitNamed(st, fmt.Sprintf("inv-entry@%s#%s", name, clauseLabel(cl, j)), "inv-entry", fr, lr.pos, g, "loop invariant does not hold on entry: "+cl.Src)
		}
	}
	// 2. havoc what the loop may modify
	pre := st
	st = st.clone()
	for _, mv := range lr.modCells {
		k, ok := x.cellKeyOf(fr, mv)
		if !ok {
			continue
		}
		old, live := st.cells[k]
		if !live {
			continue
		}
		if old.Clo != nil || old.Fn != nil || old.DP != nil {
			continue // go-side values: assumed not reassigned to something else (checked at back edge)
		}
		nv := Val{S: x.S.Const("lv_"+sanitize(k.a.Comment)+"_", x.te.Sort(old.T)), T: old.T}
		st.cells[k] = nv
		x.wfAssume(st, nv)
	}
	if lr.allocs || lr.modAll {
		nn := x.S.Const("nrh", "Int")
		x.assume(st, "(>= "+nn+" "+st.nr+")")
		st.nr = nn
	}
	var hk []string
	if lr.modAll {
		for k := range x.heapTypes {
			hk = append(hk, k)
		}
		x.note("loop " + name + " calls code with unknown effects: all heaps havoc'd")
	} else {
		for k := range lr.modHeaps {
			hk = append(hk, k)
		}
	}
	type havocRec struct {
		k, nh string
		t     types.Type
	}
	var havocked []havocRec
	sort.Strings(hk)
	for _, k := range hk {
		t := lr.modHeaps[k]
		if t == nil {
			t = x.heapTypes[k]
		}
		x.heap(st, t) // make sure it exists
		nh := x.S.Const("hh", x.te.HeapSort(t))
		if dataHeap(t) {
			x.bumpHeapVersion(st)
		}
		st.heaps[k] = nh
		x.heapTypes[k] = t
		// automatic frame invariant: every region that existed at function entry
		// and is not in the modifies clause keeps its entry contents (proved at
		// each back edge for the arbitrary region rf)
		x.assume(st, x.frameFact(nh, t))
		q := x.S.Fresh("qr")
		conds := []string{"(<= 1 " + q + ")", "(< " + q + " " + x.entry.nr + ")"}
		for _, mr := range x.modRegs {
			if mr.key == x.te.HeapKey(t) {
				conds = append(conds, "(not (= "+q+" "+mr.reg+"))")
			}
		}
		x.assume(st, fmt.Sprintf("(forall ((%s Int)) (! (=> %s (= (select %s %s) (select %s %s))) :pattern ((select %s %s))))", q, And(conds...), nh, q, x.heap0(t), q, nh, q))
		havocked = append(havocked, havocRec{k, nh, t})
	}
	// heaps in which the loop only initialises regions it allocates itself keep
	// their value: allocation is modelled as learning the contents of a region
	// that was unconstrained so far (see makeSlice / alloc)
	// ghost state may be advanced by calls inside the loop
	if lr.hasCall {
		for g := range st.ghost {
			st.ghost[g] = x.S.Const("g_"+g+"_", x.ghostSorts[g])
		}
	}
	// 3. assume invariants
	if ls != nil {
		for _, cl := range ls.Invariants {
			g := x.evalClause(x.invCtx(fr, lr, st), cl)
			x.assume(st, g)
		}
		for _, cl := range ls.Assumes {
			g := x.evalClause(x.invCtx(fr, lr, st), cl)
			x.assume(st, g)
			x.note(fmt.Sprintf("ASSUMED (not proved) at loop %s of %s: %s", name, FuncKey(fr.fn), cl.Src))
		}
	}
	for _, hr := range havocked {
		if !x.maskKeys[hr.k] {
			continue
		}
		hasMod := false
		for _, mr := range x.modRegs {
			if mr.key == hr.k {
				hasMod = true
			}
		}
		if !hasMod {
			// every pre-existing region keeps its entry contents (frame-keep proves it
			// at each back edge), so the restriction to them is the entry one
			fn := "mask_" + sanitize(hr.k)
			x.assume(st, "(= ("+fn+" "+hr.nh+" "+x.entry.nr+") ("+fn+" "+x.heap0(hr.t)+" "+x.entry.nr+"))")
		}
	}
	x.autoInvariants(fr, lr, st, pre)
	x.cover(st, "loop-"+name)
	return st
}

func clauseLabel(cl *Clause, j int) string {
	if cl.Name != "" {
		return cl.Name
	}
	return fmt.Sprint(j)
}

// frameFact: heap h agrees with the entry heap on the skolem region rf.
func (x *Exec) frameFact(h string, t types.Type) string {
	eq := "(= (select " + h + " " + x.rf + ") (select " + x.heap0(t) + " " + x.rf + "))"
	var ex []string
	for _, mr := range x.modRegs {
		if mr.key == x.te.HeapKey(t) {
			ex = append(ex, "(not (= "+x.rf+" "+mr.reg+"))")
		}
	}
	if len(ex) == 0 {
		return eq
	}
	return Imp(And(ex...), eq)
}

// autoInvariants adds facts that hold for every Go loop of a recognised shape
// (range-index loops: -1 <= rangeindex < len).
func (x *Exec) autoInvariants(fr *Frame, lr *loopRec, st *State, pre *State) {
	x.monotoneInvariants(fr, lr, st, pre)
	b := lr.head
	if b.Comment != "rangeindex.loop" {
		return
	}
	// pattern: t = *idx; t2 = t + 1; *idx = t2; c = t2 < len; if c ...
	var idxAlloc *ssa.Alloc
	var lenV ssa.Value
	for _, in := range b.Instrs {
		if s, ok := in.(*ssa.Store); ok {
			if a, ok := s.Addr.(*ssa.Alloc); ok && a.Comment == "rangeindex" {
				idxAlloc = a
			}
		}
		if bo, ok := in.(*ssa.BinOp); ok && bo.Op == token.LSS {
			lenV = bo.Y
		}
	}
	if idxAlloc == nil || lenV == nil {
		return
	}
	cv, ok := st.cells[cellKey{fr.id, idxAlloc}]
	if !ok {
		return
	}
	lv, ok := fr.env[lenV]
	if !ok {
		return
	}
	x.assume(st, And("(<= (- 1) "+cv.S+")", "(< "+cv.S+" (ite (> "+lv.S+" 0) "+lv.S+" 1))"))
	// this is inductive: checked at the back edge in closeLoop via the same pattern
}

func (x *Exec) closeLoop(fr *Frame, lr *loopRec, st *State) {
	ls := x.loopSpec(fr, lr)
	name := x.loopName(fr, lr)
	if ls != nil {
		for j, cl := range ls.Invariants {
			g := x.evalClause(x.invCtx(fr, lr, st), cl)
			x.emitNamed(st, fmt.Sprintf("inv-keep@%s#%s", name, clauseLabel(cl, j)), "inv-keep", fr, lr.pos, g, "loop invariant not preserved: "+cl.Src)
		}
	}
	// frame invariant preserved for havoc'd heaps
	if x.quiet == 0 {
		var hk []string
		for k := range lr.modHeaps {
			hk = append(hk, k)
		}
		sort.Strings(hk)
		for _, k := range hk {
			t := x.heapTypes[k]
			if t == nil {
				continue
			}
			g := x.frameFact(x.heap(st, t), t)
			x.emitNamed(st, fmt.Sprintf("frame-keep@%s#%s", name, sanitize(k)), "frame", fr, lr.pos, g, "loop writes to memory outside the modifies clause (heap "+k+")")
		}
	}
}

func (x *Exec) emitNamed(st *State, name, kind string, fr *Frame, pos token.Pos, goal, descr string) {
	if x.quiet > 0 || goal == "true" || st.pc == "false" {
		return
	}
	site := x.rootKey
	if fr != nil && fr.fn != x.root {
		site = FuncKey(fr.fn)
	}
	x.emit(st, x.rootKey+"/"+name, kind, site, pos, goal, descr)
	x.assume(st, goal)
}

var _ = strings.Contains

// monotoneInvariants: an integer local that the loop only ever changes by
// "v = v + c" with a positive (negative) constant c never drops below (rises
// above) its value at loop entry.  Sound by induction on the iterations; the
// overflow side condition is the A-ovf assumption / ovf obligation of the
// addition itself.
func (x *Exec) monotoneInvariants(fr *Frame, lr *loopRec, st *State, pre *State) {
	type dir struct{ up, down, other bool }
	dirs := map[*ssa.Alloc]*dir{}
	for b := range lr.blocks {
		for _, in := range b.Instrs {
			s, ok := in.(*ssa.Store)
			if !ok {
				continue
			}
			a, ok := s.Addr.(*ssa.Alloc)
			if !ok || !isInteger(elemOfPtr(a.Type())) {
				if a2, ok2 := addrRoot(s.Addr).(*ssa.Alloc); ok2 {
					if d := dirs[a2]; d != nil {
						d.other = true
					} else {
						dirs[a2] = &dir{other: true}
					}
				}
				continue
			}
			d := dirs[a]
			if d == nil {
				d = &dir{}
				dirs[a] = d
			}
			bo, ok := s.Val.(*ssa.BinOp)
			if !ok || (bo.Op != token.ADD && bo.Op != token.SUB) {
				d.other = true
				continue
			}
			ld, ok := bo.X.(*ssa.UnOp)
			cst, ok2 := bo.Y.(*ssa.Const)
			if !ok || !ok2 || ld.Op != token.MUL || ld.X != a || cst.Value == nil {
				d.other = true
				continue
			}
			c := cst.Int64()
			if bo.Op == token.SUB {
				c = -c
			}
			switch {
			case c > 0:
				d.up = true
			case c < 0:
				d.down = true
			}
		}
	}
	if lr.dynCall {
		return // closures might store to captured locals
	}
	for a, d := range dirs {
		if d.other || d.up == d.down {
			continue
		}
		k := cellKey{fr.id, a}
		cur, ok1 := st.cells[k]
		old, ok2 := pre.cells[k]
		if !ok1 || !ok2 || cur.S == "" || old.S == "" || cur.DP != nil || old.DP != nil {
			continue
		}
		if d.up {
			x.assume(st, "(>= "+cur.S+" "+old.S+")")
		} else {
			x.assume(st, "(<= "+cur.S+" "+old.S+")")
		}
	}
}
