package vc

import (
	"fmt"
	"go/types"
	"sort"
	"strings"
	"sync"

	"golang.org/x/tools/go/ssa"
)

func (x *Exec) call(st *State, fr *Frame, in *ssa.Call) Val {
	c := in.Common()
	rt := in.Type()
	if c.IsInvoke() {
		// interface method call: opaque, assumed pure
		recv := x.term(x.value(fr, st, c.Value))
		if named, ok := c.Value.Type().(*types.Named); ok && named.Obj().Pkg() != nil && named.Obj().Pkg().Path() == "encoding/binary" && named.Obj().Name() == "ByteOrder" {
			if v, ok := x.byteOrderInvoke(st, fr, in, c.Method.Name(), recv); ok {
				return v
			}
		}
		if rv := x.value(fr, st, c.Value); rv.Ifc != nil {
			// the dynamic type is known here: call the concrete method
			if sel := x.prog.MethodSets.MethodSet(rv.Ifc.ctype).Lookup(c.Method.Pkg(), c.Method.Name()); sel != nil {
				if callee := x.prog.MethodValue(sel); callee != nil {
					args := []Val{rv.Ifc.conc}
					for _, a := range c.Args {
						args = append(args, x.value(fr, st, a))
					}
					return x.callFunc(st, fr, in, callee, nil, args)
				}
			}
		}
		x.note("interface method call " + c.Method.Name() + " treated as opaque and pure")
		if c.Method.Name() == "Error" || c.Method.Name() == "String" {
			return x.fresh(st, rt, "str")
		}
		x.oblige(st, fr, in, "nil", "(not (= "+recv+" 0))", "method call on nil interface")
		return x.fresh(st, rt, "inv")
	}
	var args []Val
	for _, a := range c.Args {
		args = append(args, x.value(fr, st, a))
	}
	if b, ok := c.Value.(*ssa.Builtin); ok {
		return x.builtin(st, fr, in, b.Name(), args)
	}
	var callee *ssa.Function
	var bindings []Val
	if sc := c.StaticCallee(); sc != nil {
		callee = sc
		if mc, ok := c.Value.(*ssa.MakeClosure); ok {
			cv := x.value(fr, st, mc)
			bindings = cv.Clo.Bindings
		}
	} else {
		fv := x.value(fr, st, c.Value)
		switch {
		case fv.Clo != nil:
			callee = fv.Clo.Fn
			bindings = fv.Clo.Bindings
		case fv.Fn != nil:
			callee = fv.Fn
		default:
			return x.callbackCall(st, fr, in, c.Value, fv, args)
		}
	}
	return x.callFunc(st, fr, in, callee, bindings, args)
}

// callbackCall: a call through a function-typed parameter / field.
func (x *Exec) callbackCall(st *State, fr *Frame, in *ssa.Call, fv ssa.Value, fval Val, args []Val) Val {
	x.note("calls through function-typed parameters are opaque: result unconstrained; memory effects limited to the regions its pointer and slice arguments point at (A-callback)")
	if fval.S != "" && fval.S != "!unmergeable" && fval.DP == nil {
		x.oblige(st, fr, in, "nil", "(not (= "+fval.S+" 0))", "call of nil function value")
	}
	for _, a := range args {
		if a.T == nil || a.S == "" || a.S == "!unmergeable" {
			if a.DP != nil && a.DP.Cell != nil {
				unsup("address of local cell passed to an unknown function value")
			}
			continue
		}
		switch a.T.Underlying().(type) {
		case *types.Pointer, *types.Slice:
			reg, et := x.regionOf(a)
			h := x.heap(st, et)
			fa := x.S.Const("cbmod", "(Array Int "+x.te.Sort(et)+")")
			x.setHeap(st, et, "(store "+h+" "+reg+" "+fa+")")
		}
	}
	res := x.fresh(st, in.Type(), "cb")
	// ghost hook: contract may attach effects to callback calls
	x.callbackHook(st, fr, in, fv, args, res)
	return res
}

func (x *Exec) onStack(fn *ssa.Function) bool {
	for _, f := range x.stack {
		if f == fn {
			return true
		}
	}
	return false
}

func (x *Exec) callFunc(st *State, fr *Frame, in *ssa.Call, callee *ssa.Function, bindings, args []Val) Val {
	if callee.Pkg != nil && callee.Pkg.Pkg.Path() == "container/heap" {
		// container/heap is replaced by the Go model verifHeap<Name> of the calling
		// package (compiled with the verif tag), which over-approximates the sift
		// loops by an arbitrary sequence of Less/Swap calls
		if m := x.root.Pkg.Func("verifHeap" + callee.Name()); m != nil {
			x.note("container/heap." + callee.Name() + " is replaced by the model " + m.Name() + " (A-std)")
			callee = m
		}
	}
	key := FuncKey(callee)
	// 1. explicit models of external / stdlib functions
	if v, ok := x.model(st, fr, in, callee, args); ok {
		return v
	}
	// inside a spec expression real code is always inlined (its contract would
	// only give assumptions, which a spec term cannot carry)
	if x.quiet > 0 && callee.Blocks != nil && !x.onStack(callee) && x.inlinable(callee) {
		if ct := x.db.Contracts[key]; ct == nil || !ct.Trusted {
			return x.inline(st, fr, in, callee, bindings, args)
		}
	}
	// small loop-free functions that only have a sweep-generated contract are
	// inlined: their body is more precise than "ensures true"
	if ct := x.db.Contracts[key]; ct != nil && ct.Auto && callee != x.root && !x.onStack(callee) && fr.depth < x.MaxInline && x.smallLeaf(callee) {
		return x.inline(st, fr, in, callee, bindings, args)
	}
	// the unit under verification may ask for named callees to be inlined (their
	// real body is used instead of their contract): round-trip harnesses
	if x.contract != nil && x.contract.InlineCallees[callee.Name()] && callee != x.root && !x.onStack(callee) && callee.Blocks != nil {
		return x.inline(st, fr, in, callee, bindings, args)
	}
	// 2. contract
	if ct := x.db.Contracts[key]; ct != nil && !ct.Inline && callee != x.root || (callee == x.root && x.contract != nil) {
		if ct == nil {
			ct = x.contract
		}
		return x.applyContract(st, fr, in, callee, ct, args, bindings)
	}
	if callee == x.root {
		unsup("recursive call of %s without contract", key)
	}
	// 3. inline (units generated by a sweep never descend into uncontracted callees)
	if x.contract != nil && x.contract.Auto && x.quiet == 0 && callee.Parent() == nil {
		return x.opaqueCall(st, fr, in, callee, args)
	}
	if callee.Blocks != nil && fr.depth < x.MaxInline && !x.onStack(callee) && x.inlinable(callee) {
		return x.inline(st, fr, in, callee, bindings, args)
	}
	// 4. opaque
	return x.opaqueCall(st, fr, in, callee, args)
}

// smallLeaf: no loops, few instructions, and every static callee is itself small.
func (x *Exec) smallLeaf(fn *ssa.Function) bool {
	if v, ok := x.smallCache[fn]; ok {
		return v
	}
	if x.smallCache == nil {
		x.smallCache = map[*ssa.Function]bool{}
	}
	x.smallCache[fn] = false // cycle guard
	if fn.Blocks == nil || len(fn.Blocks) > 12 {
		return false
	}
	n := 0
	for _, b := range fn.Blocks {
		for _, s := range b.Succs {
			if dominates(s, b) {
				return false
			}
		}
		for _, in := range b.Instrs {
			switch v := in.(type) {
			case *ssa.DebugRef:
			case *ssa.Panic:
				return false
			case *ssa.MakeSlice, *ssa.MakeMap, *ssa.MakeClosure, *ssa.Range:
				return false
			case ssa.CallInstruction:
				c := v.Common()
				if _, isB := c.Value.(*ssa.Builtin); isB {
					if c.Value.Name() == "append" || c.Value.Name() == "copy" {
						return false
					}
					continue
				}
				callee := c.StaticCallee()
				if callee == nil {
					return false
				}
				if ct := x.db.Contracts[FuncKey(callee)]; ct != nil && !ct.Auto {
					continue // has a real contract
				}
				if !x.inlinable(callee) || !x.smallLeaf(callee) {
					return false
				}
			default:
				n++
			}
		}
	}
	ok := n <= 60
	x.smallCache[fn] = ok
	return ok
}

func (x *Exec) inlinable(fn *ssa.Function) bool {
	if fn.Pkg == nil && fn.Parent() == nil {
		return false
	}
	p := pkgOf(fn)
	if p == nil {
		return false
	}
	path := p.Path()
	if strings.HasPrefix(path, "github.com/peterstace/simplefeatures/") {
		return true
	}
	// small pure stdlib helpers
	switch path {
	case "math", "math/bits", "sort", "errors", "encoding/binary":
		return false
	}
	return false
}

func (x *Exec) inline(st *State, fr *Frame, in *ssa.Call, callee *ssa.Function, bindings, args []Val) Val {
	x.nextFrame++
	nf := &Frame{id: x.nextFrame, fn: callee, env: map[ssa.Value]Val{}, depth: fr.depth + 1, parent: fr, heapLocal: map[*ssa.Alloc]string{}}
	for i, p := range callee.Params {
		nf.env[p] = args[i]
	}
	for i, fv := range callee.FreeVars {
		if i < len(bindings) {
			nf.env[fv] = bindings[i]
		}
	}
	x.stack = append(x.stack, callee)
	rets, out := x.execBody(nf, st.clone())
	x.stack = x.stack[:len(x.stack)-1]
	x.inlined[FuncKey(callee)] = true
	if out == nil {
		// callee never returns normally on this path
		st.pc = "false"
		return x.zeroVal(in.Type())
	}
	// drop callee cells
	for k := range out.cells {
		if k.frame == nf.id {
			delete(out.cells, k)
		}
	}
	*st = *out
	switch len(rets) {
	case 0:
		return Val{T: in.Type()}
	case 1:
		r := rets[0]
		if r.T == nil {
			r.T = in.Type()
		}
		return r
	}
	return Val{Tup: rets, T: in.Type()}
}

func (x *Exec) zeroVal(t types.Type) Val {
	if tup, ok := t.(*types.Tuple); ok {
		var vs []Val
		for i := 0; i < tup.Len(); i++ {
			vs = append(vs, x.zeroVal(tup.At(i).Type()))
		}
		if len(vs) == 0 {
			return Val{T: t}
		}
		return Val{Tup: vs, T: t}
	}
	return Val{S: x.te.Zero(t), T: t}
}

// havocClosureCaptures: a closure handed to code we do not inline may run and
// store to its captured cells.
func (x *Exec) havocClosureCaptures(st *State, args []Val) {
	for _, a := range args {
		if a.Clo == nil {
			continue
		}
		stored := map[int]bool{}
		var scan func(fn *ssa.Function, fvmap map[*ssa.FreeVar]int)
		scan = func(fn *ssa.Function, fvmap map[*ssa.FreeVar]int) {
			for _, b := range fn.Blocks {
				for _, in := range b.Instrs {
					if s, ok := in.(*ssa.Store); ok {
						if fv, ok := addrRoot(s.Addr).(*ssa.FreeVar); ok {
							if i, ok := fvmap[fv]; ok {
								stored[i] = true
							}
						}
					}
				}
			}
		}
		m := map[*ssa.FreeVar]int{}
		for i, fv := range a.Clo.Fn.FreeVars {
			m[fv] = i
		}
		scan(a.Clo.Fn, m)
		for i := range stored {
			b := a.Clo.Bindings[i]
			if b.DP != nil && b.DP.Cell != nil {
				old, ok := st.cells[*b.DP.Cell]
				if ok && old.DP == nil && old.Clo == nil && old.Fn == nil {
					nv := x.fresh(st, old.T, "cap")
					st.cells[*b.DP.Cell] = nv
				}
			}
		}
	}
}

func (x *Exec) opaqueCall(st *State, fr *Frame, in *ssa.Call, callee *ssa.Function, args []Val) Val {
	key := FuncKey(callee)
	x.opaque[key] = true
	x.havocClosureCaptures(st, args)
	// An opaque callee is outside the verified set: it is assumed not to panic
	// and not to write memory that existed before the call (it may allocate).
	nn := x.S.Const("nrh", "Int")
	x.assume(st, "(>= "+nn+" "+st.nr+")")
	st.nr = nn
	x.note("callee " + key + " is opaque here (no contract, not inlined): result unconstrained; assumed not to panic and not to write pre-existing memory")
	return x.fresh(st, in.Type(), "op")
}

func (x *Exec) havocWrites(st *State, ws *writeSet, why string) {
	var hk []string
	if ws.all {
		for k := range x.heapTypes {
			hk = append(hk, k)
		}
	} else {
		for k := range ws.heaps {
			hk = append(hk, k)
		}
	}
	sort.Strings(hk)
	for _, k := range hk {
		t := ws.heaps[k]
		if t == nil {
			t = x.heapTypes[k]
		}
		x.heap(st, t)
		nh := x.S.Const("hv", x.te.HeapSort(t))
		if dataHeap(t) {
			x.bumpHeapVersion(st)
		}
		st.heaps[k] = nh
		x.heapTypes[k] = t
	}
	if ws.alloc || ws.all {
		nn := x.S.Const("nrh", "Int")
		x.assume(st, "(>= "+nn+" "+st.nr+")")
		st.nr = nn
	}
}

// applyContract: modular call — assert pre, havoc modifies, assume post.
func (x *Exec) applyContract(st *State, fr *Frame, in *ssa.Call, callee *ssa.Function, ct *Contract, args []Val, bindings []Val) Val {
	key := FuncKey(callee)
	x.usedContracts[key] = true
	vars := map[string]Val{}
	for i, p := range callee.Params {
		a := args[i]
		if a.DP != nil {
			a = Val{S: x.ptrTerm(a), T: p.Type()}
		}
		if a.Fn != nil {
			a = Val{S: fmt.Sprint(x.funcID(a.Fn)), T: p.Type(), Fn: a.Fn}
		} else if a.Clo != nil {
			a = Val{S: "1", T: p.Type(), Clo: a.Clo}
		}
		if a.T == nil {
			a.T = p.Type()
		}
		vars[p.Name()] = a
	}
	for i, fv := range callee.FreeVars {
		if i >= len(bindings) {
			break
		}
		b := bindings[i]
		if b.DP != nil && b.DP.Cell != nil && len(b.DP.Path) == 0 {
			if cv, ok := st.cells[*b.DP.Cell]; ok && cv.Clo == nil && cv.Fn == nil && cv.DP == nil && cv.S != "!unmergeable" {
				if _, clash := vars[fv.Name()]; !clash {
					vars[fv.Name()] = cv
				}
			}
		}
	}
	pkg := pkgOf(callee)
	x.declareGhosts(st, ct)
	pre := st.clone()
	sc := &SpecCtx{x: x, st: pre, old: pre, vars: vars, pkg: pkg, maskN: pre.nr}
	// implicit precondition: pointer receiver non-nil
	if callee.Signature.Recv() != nil {
		if _, isPtr := callee.Signature.Recv().Type().Underlying().(*types.Pointer); isPtr {
			rv := vars[callee.Params[0].Name()]
			x.oblige(st, fr, in, "pre-recv", "(not (= (p_reg "+rv.S+") 0))", "nil receiver passed to "+key)
		}
	}
	for j, cl := range ct.Requires {
		g := x.evalClause(sc, cl)
		x.oblige(st, fr, in, "pre", g, fmt.Sprintf("precondition %s of %s: %s", clauseLabel(cl, j), key, cl.Src))
		x.renameLast(fmt.Sprintf("pre:%s#%s", shortKey(key), clauseLabel(cl, j)))
	}
	pre.pc = st.pc
	// havoc modifies: the modified regions are named in the pre-state
	x.havocClosureCaptures(st, args)
	sc.st = pre
	type modTarget struct {
		reg string
		et  types.Type
	}
	var targets []modTarget
	for _, m := range ct.Modifies {
		reg, et := x.modifiesRegion(sc, m)
		targets = append(targets, modTarget{x.S.Define("modreg", "Int", reg), et})
	}
	sc.st = st
	for _, t := range targets {
		h := x.heap(st, t.et)
		fa := x.S.Const("mod", "(Array Int "+x.te.Sort(t.et)+")")
		x.setHeap(st, t.et, "(store "+h+" "+t.reg+" "+fa+")")
	}
	ws := x.writes(callee, map[*ssa.Function]bool{})
	if ws.alloc || ws.all {
		nn := x.S.Const("nrc", "Int")
		x.assume(st, "(>= "+nn+" "+st.nr+")")
		st.nr = nn
	}
	x.havocGhosts(st, ct)
	// results
	res := x.freshResult(st, in.Type())
	post := &SpecCtx{x: x, st: st, old: pre, vars: map[string]Val{}, pkg: pkg, maskN: pre.nr}
	for k, v := range vars {
		post.vars[k] = v
	}
	// captured variables the callee may assign: fresh value after the call
	if len(bindings) > 0 {
		stored := x.storedFreeVars(callee)
		for i, fv := range callee.FreeVars {
			if i >= len(bindings) || !stored[fv] {
				continue
			}
			b := bindings[i]
			if b.DP == nil || b.DP.Cell == nil || len(b.DP.Path) != 0 {
				continue
			}
			old, ok := st.cells[*b.DP.Cell]
			if !ok || old.Clo != nil || old.Fn != nil || old.DP != nil || old.S == "!unmergeable" {
				continue
			}
			nv := x.fresh(st, old.T, "cap")
			st.cells[*b.DP.Cell] = nv
			if post.oldVars == nil {
				post.oldVars = map[string]Val{}
			}
			post.oldVars[fv.Name()] = old
			post.vars[fv.Name()] = nv
		}
	}
	bindResults(post.vars, callee, res)
	// a contract proved over the reals says nothing about IEEE arithmetic:
	// a bit-precise caller imports only its clauses free of float arithmetic
	crossMode := x.te.FMode == FloatIEEE && (ct.Mode == "real" || ct.Mode == "order")
	for _, cl := range ct.Ensures {
		n0 := x.faCount
		var g string
		if crossMode {
			// real-only spec functions (fsqrt, trig) cannot even be written down here
			ok := func() (ok bool) {
				defer func() {
					if r := recover(); r != nil {
						if _, isSF := r.(specFail); isSF {
							ok = false
							return
						}
						panic(r)
					}
				}()
				g = post.Bool(cl.Expr)
				return true
			}()
			if !ok {
				x.note("clause of the real-arithmetic contract of " + key + " not imported into a bit-precise caller: " + cl.Src)
				continue
			}
		} else {
			g = x.evalClause(post, cl)
		}
		if crossMode && x.faCount != n0 {
			x.note("clause of the real-arithmetic contract of " + key + " not imported into a bit-precise caller: " + cl.Src)
			continue
		}
		x.assume(st, g)
	}
	for _, cl := range ct.Defines {
		g := x.evalClause(post, cl)
		x.assume(st, g)
		x.note("A-det: " + key + " is deterministic: its result is named by an uninterpreted function of its arguments at the current heap version (" + cl.Src + ")")
	}
	return res
}

func shortKey(k string) string {
	if i := strings.Index(k, "."); i >= 0 {
		return k[i+1:]
	}
	return k
}

// renameLast gives the most recent obligation a more descriptive suffix.
func (x *Exec) renameLast(suffix string) {
	if x.quiet > 0 || len(x.obls) == 0 {
		return
	}
	ob := x.obls[len(x.obls)-1]
	if ob.Kind == "pre" && !strings.Contains(ob.Name, "|") {
		ob.Name += "|" + suffix
	}
}

func (x *Exec) freshResult(st *State, t types.Type) Val {
	if tup, ok := t.(*types.Tuple); ok {
		if tup.Len() == 0 {
			return Val{T: t}
		}
		var vs []Val
		for i := 0; i < tup.Len(); i++ {
			vs = append(vs, x.freshResult(st, tup.At(i).Type()))
		}
		return Val{Tup: vs, T: t}
	}
	v := Val{S: x.S.Const("r", x.te.Sort(t)), T: t}
	x.wfAssume(st, v)
	return v
}

func bindResults(vars map[string]Val, fn *ssa.Function, res Val) {
	sig := fn.Signature
	n := sig.Results().Len()
	if n == 0 {
		return
	}
	if n == 1 {
		vars["result"] = res
		if nm := sig.Results().At(0).Name(); nm != "" && nm != "_" {
			if _, clash := vars[nm]; !clash {
				vars[nm] = res
			}
		}
		return
	}
	for i := 0; i < n; i++ {
		vars[fmt.Sprintf("result%d", i)] = res.Tup[i]
		if nm := sig.Results().At(i).Name(); nm != "" && nm != "_" {
			if _, clash := vars[nm]; !clash {
				vars[nm] = res.Tup[i]
			}
		}
	}
}

// modifiesRegion evaluates a modifies expression to (region, element type).
func (x *Exec) modifiesRegion(sc *SpecCtx, m *Clause) (string, types.Type) {
	var v Val
	func() {
		defer func() {
			if r := recover(); r != nil {
				if sf, ok := r.(specFail); ok {
					panic(unsupported{fmt.Sprintf("spec error at %s:%d: %s", m.File, m.Line, sf.msg)})
				}
				panic(r)
			}
		}()
		v = sc.Eval(m.Expr)
	}()
	if v.S != "" && v.T != nil {
		// memory-model well-formedness of the named value (holds for every Go value)
		x.pendingFacts = append(x.pendingFacts, x.wf(v.S, v.T, sc.st, 0))
	}
	return x.regionOf(v)
}

// havocModifies overwrites the region named by a modifies expression.
func (x *Exec) havocModifies(st *State, sc *SpecCtx, m *Clause) {
	var v Val
	func() {
		defer func() {
			if r := recover(); r != nil {
				if sf, ok := r.(specFail); ok {
					panic(unsupported{fmt.Sprintf("spec error at %s:%d: %s", m.File, m.Line, sf.msg)})
				}
				panic(r)
			}
		}()
		v = sc.Eval(m.Expr)
	}()
	reg, et := x.regionOf(v)
	h := x.heap(st, et)
	fa := x.S.Const("mod", "(Array Int "+x.te.Sort(et)+")")
	x.setHeap(st, et, "(store "+h+" "+reg+" "+fa+")")
}

func (x *Exec) regionOf(v Val) (string, types.Type) {
	if v.T == nil {
		unsup("modifies: untyped expression")
	}
	switch u := v.T.Underlying().(type) {
	case *types.Pointer:
		et := u.Elem()
		if at, ok := et.Underlying().(*types.Array); ok {
			et = at.Elem()
		}
		return "(p_reg " + v.S + ")", et
	case *types.Slice:
		// a slice of capacity 0 names no memory: its region is irrelevant
		return "(ite (= (s_cap " + v.S + ") 0) 0 (s_reg " + v.S + "))", u.Elem()
	}
	unsup("modifies: expression of type %s", v.T)
	return "", nil
}

// ---------- builtins ----------

func (x *Exec) builtin(st *State, fr *Frame, in *ssa.Call, name string, args []Val) Val {
	switch name {
	case "len", "cap":
		a := args[0]
		switch u := a.T.Underlying().(type) {
		case *types.Slice, *types.Basic:
			if name == "len" {
				return Val{S: "(s_len " + x.term(a) + ")", T: in.Type()}
			}
			return Val{S: "(s_cap " + x.term(a) + ")", T: in.Type()}
		case *types.Array:
			return Val{S: fmt.Sprint(u.Len()), T: in.Type()}
		case *types.Pointer:
			if at, ok := u.Elem().Underlying().(*types.Array); ok {
				return Val{S: fmt.Sprint(at.Len()), T: in.Type()}
			}
		case *types.Map:
			return x.mapLen(st, a, in.Type())
		}
		unsup("len of %s", a.T)
	case "append":
		return x.appendBuiltin(st, fr, in, args)
	case "copy":
		return x.copyBuiltin(st, fr, in, args)
	case "panic":
		x.oblige(st, fr, in, "panic", "false", "explicit panic reachable")
		return Val{T: in.Type()}
	case "ssa:wrapnilchk":
		return args[0]
	case "ssa:deferstack":
		return Val{S: "(mk_ptr 0 0)", T: in.Type()}
	case "delete":
		return x.mapDelete(st, fr, in, args)
	case "min", "max":
		if len(args) >= 1 && isInteger(args[0].T) {
			r := x.term(args[0])
			for _, a := range args[1:] {
				t := x.term(a)
				if name == "min" {
					r = "(ite (<= " + r + " " + t + ") " + r + " " + t + ")"
				} else {
					r = "(ite (>= " + r + " " + t + ") " + r + " " + t + ")"
				}
			}
			return Val{S: x.S.Define("mm", "Int", r), T: in.Type()}
		}
		unsup("builtin %s on non-integers", name)
	}
	unsup("builtin %s", name)
	return Val{}
}

// appendBuiltin models append(s, elems...) following Go: in place when
// capacity suffices, otherwise a fresh region with the old prefix copied.
func (x *Exec) appendBuiltin(st *State, fr *Frame, in *ssa.Call, args []Val) Val {
	s := x.term(args[0])
	t := x.term(args[1])
	var et types.Type
	if sl, ok := args[0].T.Underlying().(*types.Slice); ok {
		et = sl.Elem()
	} else {
		unsup("append on %s", args[0].T)
	}
	es := x.te.Sort(et)
	srcT := et
	if isString(args[1].T) {
		srcT = types.Typ[types.Uint8]
	}
	sl, tl := "(s_len "+s+")", "(s_len "+t+")"
	nl := x.S.Define("al", "Int", "(+ "+sl+" "+tl+")")
	fits := x.S.Define("fits", "Bool", "(<= "+nl+" (s_cap "+s+"))")
	nreg := x.newRegion(st, nil)
	ncap := x.S.Const("acap", "Int")
	x.assume(st, And("(>= "+ncap+" "+nl+")", "(<= "+ncap+" "+maxSliceElems+")"))
	h := x.heap(st, et)
	hs := x.heap(st, srcT)
	// destination inner array after the append
	dreg := x.S.Define("dreg", "Int", Ite(fits, "(s_reg "+s+")", nreg))
	doff := x.S.Define("doff", "Int", Ite(fits, "(s_off "+s+")", "0"))
	inner := x.S.Const("app", "(Array Int "+es+")")
	q := x.S.Fresh("qi")
	oldInner := "(select " + h + " (s_reg " + s + "))"
	srcInner := "(select " + hs + " (s_reg " + t + "))"
	// element j of result (relative index) : j < sl -> old s[j] ; sl <= j < nl -> t[j-sl]
	// absolute: inner[doff+j]
	body := fmt.Sprintf("(= (select %s %s) (ite (and (<= %s %s) (< %s (+ %s %s))) (ite (< %s (+ %s %s)) (select %s (+ (s_off %s) (- %s %s))) (select %s (+ (s_off %s) (- %s (+ %s %s))))) (select (select %s %s) %s)))",
		inner, q,
		doff, q, q, doff, nl,
		q, doff, sl,
		oldInner, s, q, doff,
		srcInner, t, q, doff, sl,
		h, dreg, q)
	x.assume(st, fmt.Sprintf("(forall ((%s Int)) (! %s :pattern ((select %s %s))))", q, body, inner, q))
	x.setHeap(st, et, "(store "+h+" "+dreg+" "+inner+")")
	rc := x.S.Define("rcap", "Int", Ite(fits, "(s_cap "+s+")", ncap))
	return Val{S: x.S.Define("s", "Slice", "(mk_slice "+dreg+" "+doff+" "+nl+" "+rc+")"), T: in.Type()}
}

func (x *Exec) copyBuiltin(st *State, fr *Frame, in *ssa.Call, args []Val) Val {
	d := x.term(args[0])
	s := x.term(args[1])
	et := args[0].T.Underlying().(*types.Slice).Elem()
	es := x.te.Sort(et)
	srcT := et
	if isString(args[1].T) {
		srcT = types.Typ[types.Uint8]
	}
	n := x.S.Define("cn", "Int", "(ite (<= (s_len "+d+") (s_len "+s+")) (s_len "+d+") (s_len "+s+"))")
	h := x.heap(st, et)
	hs := x.heap(st, srcT)
	inner := x.S.Const("cpy", "(Array Int "+es+")")
	q := x.S.Fresh("qi")
	body := fmt.Sprintf("(= (select %s %s) (ite (and (<= (s_off %s) %s) (< %s (+ (s_off %s) %s))) (select (select %s (s_reg %s)) (+ (s_off %s) (- %s (s_off %s)))) (select (select %s (s_reg %s)) %s)))",
		inner, q, d, q, q, d, n, hs, s, s, q, d, h, d, q)
	x.assume(st, fmt.Sprintf("(forall ((%s Int)) (! %s :pattern ((select %s %s))))", q, body, inner, q))
	// a copy of zero elements into a nil slice must not touch region 0; harmless in the model
	x.setHeap(st, et, "(store "+h+" (s_reg "+d+") "+inner+")")
	return Val{S: n, T: in.Type()}
}

// byteOrderInvoke models Uint16/32/64 and PutUint16/32/64 called through a
// binary.ByteOrder interface value (symbolic byte order).
func (x *Exec) byteOrderInvoke(st *State, fr *Frame, in *ssa.Call, method, recv string) (Val, bool) {
	width := map[string]int{"Uint16": 2, "Uint32": 4, "Uint64": 8, "PutUint16": 2, "PutUint32": 4, "PutUint64": 8}[method]
	if width == 0 {
		return Val{}, false
	}
	x.modelsUsed["encoding/binary.ByteOrder."+method] = true
	isLE := "(= " + recv + " " + x.byteOrderConst(true) + ")"
	bt := types.Typ[types.Uint8]
	c := in.Common()
	b := x.term(x.value(fr, st, c.Args[0]))
	x.oblige(st, fr, in, "nil", "(not (= "+recv+" 0))", "method call on nil ByteOrder")
	x.oblige(st, fr, in, "idx", fmt.Sprintf("(<= %d (s_len %s))", width, b), "binary."+method+": slice too short")
	if strings.HasPrefix(method, "Uint") {
		var le, be []string
		for i := 0; i < width; i++ {
			byt := x.heapLoad(st, bt, "(s_reg "+b+")", fmt.Sprintf("(+ (s_off %s) %d)", b, i))
			le = append(le, fmt.Sprintf("(* %s %s)", byt, pow2(8*i).String()))
			be = append(be, fmt.Sprintf("(* %s %s)", byt, pow2(8*(width-1-i)).String()))
		}
		r := Val{S: x.S.Define("u", "Int", Ite(isLE, "(+ "+strings.Join(le, " ")+")", "(+ "+strings.Join(be, " ")+")")), T: in.Type()}
		x.wfAssume(st, r)
		return r, true
	}
	v := x.term(x.value(fr, st, c.Args[1]))
	// base-256 digits d_0 (least significant) .. d_{w-1}: fresh, in 0..255,
	// with v == sum d_k*256^k (the unique decomposition; linear for the solver)
	var dg, terms, rng []string
	for k := 0; k < width; k++ {
		d := x.S.Const("dg", "Int")
		dg = append(dg, d)
		rng = append(rng, "(<= 0 "+d+")", "(<= "+d+" 255)")
		terms = append(terms, fmt.Sprintf("(* %s %s)", d, pow2(8*k).String()))
	}
	x.assume(st, And(append(rng, "(= "+v+" (+ "+strings.Join(terms, " ")+"))")...))
	for i := 0; i < width; i++ {
		x.heapStore(st, bt, "(s_reg "+b+")", fmt.Sprintf("(+ (s_off %s) %d)", b, i), Ite(isLE, dg[i], dg[width-1-i]))
	}
	return Val{T: in.Type()}, true
}

// storedFreeVars: the free variables a closure (or a closure nested in it)
// assigns to.
func (x *Exec) storedFreeVars(fn *ssa.Function) map[*ssa.FreeVar]bool {
	out := map[*ssa.FreeVar]bool{}
	for _, b := range fn.Blocks {
		for _, in := range b.Instrs {
			if s, ok := in.(*ssa.Store); ok {
				if fv, ok := addrRoot(s.Addr).(*ssa.FreeVar); ok {
					out[fv] = true
				}
			}
			if mc, ok := in.(*ssa.MakeClosure); ok {
				inner := x.storedFreeVars(mc.Fn.(*ssa.Function))
				for i, bv := range mc.Bindings {
					if fv, ok := bv.(*ssa.FreeVar); ok {
						if i < len(mc.Fn.(*ssa.Function).FreeVars) && inner[mc.Fn.(*ssa.Function).FreeVars[i]] {
							out[fv] = true
						}
					}
				}
			}
		}
	}
	return out
}

// funcID gives every named function a distinct positive integer (the value
// of a function-typed expression that denotes it).
var funcIDs = map[string]int{}
var funcMu sync.Mutex

func (x *Exec) funcID(fn *ssa.Function) int {
	funcMu.Lock()
	defer funcMu.Unlock()
	k := fn.String()
	if id, ok := funcIDs[k]; ok {
		return id
	}
	h := 0
	for _, c := range k {
		h = (h*131 + int(c)) % 1000003
	}
	id := 1000 + h
	funcIDs[k] = id
	return id
}
