package vc

import (
	"os"
	"fmt"
	"go/constant"
	"go/token"
	"go/types"
	"math"
	"math/big"
	"strconv"
	"strings"

	"golang.org/x/tools/go/ssa"
)

// SpecCtx is the environment in which a spec expression is elaborated.
type SpecCtx struct {
	x       *Exec
	st, old *State
	vars    map[string]Val
	fr      *Frame // for local-variable lookup (loop invariants); may be nil
	loopPos token.Pos
	pkg     *types.Package
	depth   int
	binders int
	loopHead *ssa.BasicBlock
	oldVars  map[string]Val // bindings that differ inside old(...) (mutable captured variables)
	maskN    string         // allocation boundary for masked recursive functions ("" = function entry)
}

type specFail struct{ msg string }

func sfail(format string, a ...interface{}) { panic(specFail{fmt.Sprintf(format, a...)}) }

func (c *SpecCtx) with(name string, v Val) *SpecCtx {
	n := *c
	n.vars = make(map[string]Val, len(c.vars)+1)
	for k, vv := range c.vars {
		n.vars[k] = vv
	}
	n.vars[name] = v
	return &n
}

// sortOf returns the SMT sort of a Val.
func (x *Exec) sortOf(v Val) string {
	if v.T != nil {
		return x.te.Sort(v.T)
	}
	if v.Bltn != "" {
		return v.Bltn // spec-only sort stored in Bltn
	}
	return "Int"
}

func specVal(s, sort string) Val { return Val{S: s, Bltn: sort} }

func (c *SpecCtx) Bool(e SExpr) string {
	v := c.Eval(e)
	if c.x.sortOf(v) != "Bool" {
		sfail("expected Bool in %s, got %s", e.String(), c.x.sortOf(v))
	}
	return v.S
}

func floatLit(te *TypeEnv, f float64) string {
	if te.FMode == FloatReal {
		r := new(big.Rat)
		r.SetFloat64(f)
		if r.IsInt() {
			s := r.Num().String()
			if r.Sign() < 0 {
				return "(- " + s[1:] + ".0)"
			}
			return s + ".0"
		}
		num := r.Num()
		neg := num.Sign() < 0
		if neg {
			num = new(big.Int).Neg(num)
		}
		t := "(/ " + num.String() + ".0 " + r.Denom().String() + ".0)"
		if neg {
			return "(- " + t + ")"
		}
		return t
	}
	if math.IsNaN(f) {
		return "(_ NaN 11 53)"
	}
	b := math.Float64bits(f)
	return fmt.Sprintf("(fp #b%01b #b%011b #b%052b)", b>>63, (b>>52)&0x7ff, b&((1<<52)-1))
}

func (c *SpecCtx) toFloat(v Val, e SExpr) Val {
	fs := c.x.te.FloatSort()
	if c.x.sortOf(v) == fs {
		return v
	}
	if n, ok := e.(*SNum); ok {
		f, err := strconv.ParseFloat(n.V, 64)
		if err != nil {
			sfail("bad float literal %s", n.V)
		}
		return specVal(floatLit(c.x.te, f), fs)
	}
	if u, ok := e.(*SUn); ok && u.Op == "-" {
		if n, ok := u.X.(*SNum); ok {
			f, _ := strconv.ParseFloat(n.V, 64)
			return specVal(floatLit(c.x.te, -f), fs)
		}
	}
	if c.x.sortOf(v) == "Int" {
		if c.x.te.FMode == FloatReal {
			return specVal("(to_real "+v.S+")", fs)
		}
		return specVal("((_ to_fp 11 53) RNE (to_real "+v.S+"))", fs)
	}
	sfail("cannot use %s as float", e.String())
	return Val{}
}

func (c *SpecCtx) Eval(e SExpr) Val {
	x := c.x
	switch e := e.(type) {
	case *SNum:
		if strings.ContainsAny(e.V, ".") || (strings.ContainsAny(e.V, "e") && !strings.HasPrefix(e.V, "0x")) {
			f, err := strconv.ParseFloat(e.V, 64)
			if err != nil {
				sfail("bad number %s", e.V)
			}
			return specVal(floatLit(x.te, f), x.te.FloatSort())
		}
		bi, ok := new(big.Int).SetString(e.V, 0)
		if !ok {
			sfail("bad integer %s", e.V)
		}
		return specVal(BigLit(bi), "Int")
	case *SIdent:
		return c.ident(e.Name)
	case *SOld:
		if c.old == nil {
			sfail("old() not available here")
		}
		n := *c
		n.st = c.old
		if c.oldVars != nil {
			n.vars = make(map[string]Val, len(c.vars)+len(c.oldVars))
			for k, vv := range c.vars {
				n.vars[k] = vv
			}
			for k, vv := range c.oldVars {
				n.vars[k] = vv
			}
		}
		if c.fr != nil {
			// inside a loop invariant: old(...) sees parameters at their entry values
			n.fr = nil
			n.vars = make(map[string]Val, len(c.vars)+len(x.rootArgs))
			for k, vv := range c.vars {
				n.vars[k] = vv
			}
			if c.fr.fn == x.root {
				for k, vv := range x.rootArgs {
					n.vars[k] = vv
				}
			}
		}
		return n.Eval(e.X)
	case *SUn:
		v := c.Eval(e.X)
		switch e.Op {
		case "!":
			return specVal(Not(v.S), "Bool")
		case "-":
			switch x.sortOf(v) {
			case "Int":
				return specVal("(- "+v.S+")", "Int")
			case "Real":
				return specVal("(- "+v.S+")", "Real")
			case fpSort:
				return specVal("(fp.neg "+v.S+")", fpSort)
			}
		}
		sfail("bad unary %s", e.String())
	case *SBin:
		return c.bin(e)
	case *SField:
		v := c.Eval(e.X)
		return c.field(v, e.Name, e)
	case *SIndex:
		v := c.Eval(e.X)
		i := c.Eval(e.I)
		return c.index(v, i.S, e)
	case *SSlice:
		v := c.Eval(e.X)
		if v.T == nil {
			sfail("slice of untyped %s", e.String())
		}
		lo := "0"
		if e.Lo != nil {
			lo = c.Eval(e.Lo).S
		}
		hi := "(s_len " + v.S + ")"
		if e.Hi != nil {
			hi = c.Eval(e.Hi).S
		}
		return Val{S: fmt.Sprintf("(mk_slice (s_reg %s) (+ (s_off %s) %s) (- %s %s) (- (s_cap %s) %s))", v.S, v.S, lo, hi, lo, v.S, lo), T: v.T}
	case *SQuant:
		n := *c
		n.binders = c.binders + 1
		n.vars = make(map[string]Val, len(c.vars)+len(e.Vars))
		for k, vv := range c.vars {
			n.vars[k] = vv
		}
		var binds []string
		var guards []string
		for i, bv := range e.Vars {
			name := x.S.Fresh("q_" + bv + "_")
			if i < len(e.Types) && e.Types[i] != "" {
				t := c.lookupType(e.Types[i])
				n.vars[bv] = Val{S: name, T: t}
				binds = append(binds, "("+name+" "+x.te.Sort(t)+")")
				if g := x.wf(name, t, c.st, 0); g != "true" {
					guards = append(guards, g)
				}
				continue
			}
			n.vars[bv] = specVal(name, "Int")
			binds = append(binds, "("+name+" Int)")
		}
		x.S.Inline++
		body := func() string {
			defer func() { x.S.Inline-- }()
			return n.Bool(e.Body)
		}()
		if len(guards) > 0 {
			if e.Forall {
				body = Imp(And(guards...), body)
			} else {
				body = And(append(guards, body)...)
			}
		}
		q := "exists"
		if e.Forall {
			q = "forall"
		}
		for i, bv := range e.Vars {
			if i < len(e.Types) && e.Types[i] != "" {
				continue
			}
			body = reindexBound(body, n.vars[bv].S)
		}
		return specVal(fmt.Sprintf("(%s (%s) %s)", q, strings.Join(binds, " "), body), "Bool")
	case *SCall:
		return c.call(e)
	}
	sfail("cannot evaluate %s", e.String())
	return Val{}
}

func (c *SpecCtx) ident(name string) Val {
	x := c.x
	if v, ok := c.vars[name]; ok {
		return v
	}
	switch name {
	case "true":
		return specVal("true", "Bool")
	case "false":
		return specVal("false", "Bool")
	case "nil":
		return Val{S: "!nil"}
	case "nr":
		return specVal(c.st.nr, "Int")
	case "IFACE_LE":
		return specVal(x.byteOrderConst(true), "Int")
	case "IFACE_BE":
		return specVal(x.byteOrderConst(false), "Int")
	case "maxint":
		return specVal("9223372036854775807", "Int")
	}
	if g, ok := c.st.ghost[name]; ok {
		return specVal(g, x.ghostSorts[name])
	}
	// hidden byte position of the string iteration of this loop
	if name == "iterpos" && c.fr != nil && c.loopHead != nil {
		for _, in := range c.loopHead.Instrs {
			if nx, ok := in.(*ssa.Next); ok {
				if rng, ok := nx.Iter.(*ssa.Range); ok {
					if v, ok := c.st.cells[cellKey{c.fr.id, iterAlloc(rng)}]; ok {
						return v
					}
				}
			}
		}
	}
	// local variable of the frame, or (for a function inlined into its caller)
	// of one of the frames it is inlined into
	if c.fr != nil {
		if v, ok := c.localVar(name); ok {
			return v
		}
		for pf := c.fr.parent; pf != nil; pf = pf.parent {
			n := *c
			n.fr = pf
			n.loopHead = nil
			n.loopPos = token.NoPos
			if v, ok := n.localVar(name); ok {
				return v
			}
		}
	}
	// package-level constant or global
	if c.pkg != nil {
		if obj := c.pkg.Scope().Lookup(name); obj != nil {
			switch o := obj.(type) {
			case *types.Const:
				return x.constVal(o.Val(), o.Type())
			case *types.Var:
				return x.globalVal(o)
			}
		}
	}
	// a closure's contract may mention a variable of the enclosing function that
	// the closure does not (or no longer) capture: nothing is known about it,
	// so it stands for an arbitrary value of its type
	if x.root != nil && x.root.Parent() != nil {
		if v, ok := x.enclosingVar(c.st, x.root.Parent(), name); ok {
			return v
		}
	}
	sfail("unknown identifier %s", name)
	return Val{}
}

// enclosingVar: an unconstrained value for a named local of an enclosing function.
func (x *Exec) enclosingVar(st *State, parent *ssa.Function, name string) (Val, bool) {
	if x.enclosing == nil {
		x.enclosing = map[string]Val{}
	}
	if v, ok := x.enclosing[name]; ok {
		return v, true
	}
	for p := parent; p != nil; p = p.Parent() {
		for _, prm := range p.Params {
			if prm.Name() == name {
				v := x.fresh(st, prm.Type(), "enc_"+name)
				x.enclosing[name] = v
				return v, true
			}
		}
		for _, l := range p.Locals {
			if l.Comment == name {
				v := x.fresh(st, elemOfPtr(l.Type()), "enc_"+name)
				x.enclosing[name] = v
				return v, true
			}
		}
		for _, b := range p.Blocks {
			for _, in := range b.Instrs {
				if a, ok := in.(*ssa.Alloc); ok && a.Comment == name {
					v := x.fresh(st, elemOfPtr(a.Type()), "enc_"+name)
					x.enclosing[name] = v
					return v, true
				}
			}
		}
	}
	return Val{}, false
}

func (c *SpecCtx) localVar(name string) (Val, bool) {
	fr := c.fr
	want := name
	occ := -1
	if i := strings.Index(name, "$"); i > 0 {
		want = name[:i]
		occ, _ = strconv.Atoi(name[i+1:])
	}
	var cands []*ssa.Alloc
	for _, a := range fr.allocsByName(want) {
		cands = append(cands, a)
	}
	if len(cands) == 0 {
		return Val{}, false
	}
	var pick *ssa.Alloc
	if want == "rangeindex" && c.loopHead != nil && occ < 0 {
		// the hidden index of *this* range loop
		for _, in := range c.loopHead.Instrs {
			if st, ok := in.(*ssa.Store); ok {
				if a, ok := st.Addr.(*ssa.Alloc); ok && a.Comment == "rangeindex" {
					cands = []*ssa.Alloc{a}
				}
			}
		}
	}
	if occ >= 0 {
		if occ < len(cands) {
			pick = cands[occ]
		}
	} else if len(cands) == 1 {
		pick = cands[0]
	} else {
		// latest declared before the loop position that is live in the state
		for _, a := range cands {
			if _, live := c.st.cells[cellKey{fr.id, a}]; !live {
				continue
			}
			if c.loopPos != token.NoPos && a.Pos() != token.NoPos && a.Pos() > c.loopPos {
				continue
			}
			if pick == nil || a.Pos() > pick.Pos() {
				pick = a
			}
		}
	}
	if pick == nil {
		return Val{}, false
	}
	v, ok := c.st.cells[cellKey{fr.id, pick}]
	if !ok {
		// maybe a heap-allocated (escaping) local
		if hv, ok2 := fr.heapLocal[pick]; ok2 {
			et := pick.Type().Underlying().(*types.Pointer).Elem()
			if at, isArr := et.Underlying().(*types.Array); isArr {
				// a region holding an array stores the elements directly (see toDPtr)
				return Val{S: "(select " + c.x.heap(c.st, at.Elem()) + " " + hv + ")", T: et}, true
			}
			return Val{S: c.x.heapLoad(c.st, et, hv, "0"), T: et}, true
		}
		return Val{}, false
	}
	if v.S == "!unmergeable" {
		sfail("variable %s has no single symbolic value here", name)
	}
	if v.DP != nil {
		et := pick.Type().Underlying().(*types.Pointer).Elem()
		v = Val{S: c.x.ptrTerm(v), T: et}
	}
	if v.Clo != nil || v.Fn != nil {
		sfail("variable %s holds a function value", name)
	}
	return v, true
}

func (c *SpecCtx) bin(e *SBin) Val {
	x := c.x
	switch e.Op {
	case "&&":
		return specVal(And(c.Bool(e.L), c.Bool(e.R)), "Bool")
	case "||":
		return specVal(Or(c.Bool(e.L), c.Bool(e.R)), "Bool")
	case "==>":
		return specVal(Imp(c.Bool(e.L), c.Bool(e.R)), "Bool")
	case "<==>":
		return specVal(Eq(c.Bool(e.L), c.Bool(e.R)), "Bool")
	}
	l := c.Eval(e.L)
	r := c.Eval(e.R)
	// nil comparisons
	if l.S == "!nil" || r.S == "!nil" {
		o := l
		if l.S == "!nil" {
			o = r
		}
		var t string
		if o.Clo != nil || o.Fn != nil {
			// a closure or function value known to the executor is never nil
			if e.Op == "!=" {
				return specVal("true", "Bool")
			}
			return specVal("false", "Bool")
		}
		switch x.sortOf(o) {
		case "Ptr":
			t = "(= (p_reg " + o.S + ") 0)"
		case "Slice":
			t = "(= (s_reg " + o.S + ") 0)"
		case "Int":
			t = "(= " + o.S + " 0)"
		default:
			sfail("nil comparison on %s", x.sortOf(o))
		}
		if e.Op == "!=" {
			t = Not(t)
		} else if e.Op != "==" {
			sfail("bad nil comparison")
		}
		return specVal(t, "Bool")
	}
	ls, rs := x.sortOf(l), x.sortOf(r)
	fs := x.te.FloatSort()
	if ls == fs && rs != fs {
		r = c.toFloat(r, e.R)
		rs = fs
	} else if rs == fs && ls != fs {
		l = c.toFloat(l, e.L)
		ls = fs
	}
	if ls != rs {
		sfail("sort mismatch in %s: %s vs %s", e.String(), ls, rs)
	}
	switch e.Op {
	case "==", "!=":
		var t string
		if l.T != nil {
			t = x.goEq(l.T, l.S, r.S)
		} else if r.T != nil {
			t = x.goEq(r.T, l.S, r.S)
		} else if ls == fpSort {
			t = "(fp.eq " + l.S + " " + r.S + ")"
		} else {
			t = Eq(l.S, r.S)
		}
		if e.Op == "!=" {
			t = Not(t)
		}
		return specVal(t, "Bool")
	case "<", "<=", ">", ">=":
		op := e.Op
		if ls == fpSort {
			op = map[string]string{"<": "fp.lt", "<=": "fp.leq", ">": "fp.gt", ">=": "fp.geq"}[op]
		} else if ls != "Int" && ls != "Real" {
			sfail("ordering on %s", ls)
		}
		return specVal("("+op+" "+l.S+" "+r.S+")", "Bool")
	case "+", "-", "*", "/", "%":
		switch ls {
		case "Int":
			op := e.Op
			if op == "/" {
				op = "div"
			}
			if op == "%" {
				op = "mod"
			}
			return specVal("("+op+" "+l.S+" "+r.S+")", "Int")
		case "Real":
			if e.Op == "%" {
				sfail("%% on reals")
			}
			return specVal("("+e.Op+" "+l.S+" "+r.S+")", "Real")
		case fpSort:
			op := map[string]string{"+": "fp.add", "-": "fp.sub", "*": "fp.mul", "/": "fp.div"}[e.Op]
			if op == "" {
				sfail("%% on floats")
			}
			x.faCount++
			return specVal("("+op+" RNE "+l.S+" "+r.S+")", fpSort)
		}
	}
	sfail("bad binary %s", e.String())
	return Val{}
}

// goEq is Go's == on values of type t (floats compare with fp.eq).
func (x *Exec) goEq(t types.Type, a, b string) string {
	switch u := t.Underlying().(type) {
	case *types.Basic:
		if u.Info()&types.IsFloat != 0 && x.te.FMode == FloatIEEE {
			return "(fp.eq " + a + " " + b + ")"
		}
		return Eq(a, b)
	case *types.Struct:
		si := x.te.structOf(t)
		hasFloat := false
		var walk func(tt types.Type)
		walk = func(tt types.Type) {
			switch uu := tt.Underlying().(type) {
			case *types.Basic:
				if uu.Info()&types.IsFloat != 0 {
					hasFloat = true
				}
			case *types.Struct:
				for i := 0; i < uu.NumFields(); i++ {
					walk(uu.Field(i).Type())
				}
			case *types.Array:
				walk(uu.Elem())
			}
		}
		walk(t)
		if !hasFloat || x.te.FMode != FloatIEEE {
			return Eq(a, b)
		}
		var parts []string
		for i, f := range si.fields {
			parts = append(parts, x.goEq(si.ftypes[i], "("+f+" "+a+")", "("+f+" "+b+")"))
		}
		return And(parts...)
	}
	return Eq(a, b)
}

func (c *SpecCtx) field(v Val, name string, e SExpr) Val {
	x := c.x
	if v.Tup != nil {
		i, err := strconv.Atoi(name)
		if err != nil || i < 0 || i >= len(v.Tup) {
			sfail("bad tuple component %s in %s", name, e.String())
		}
		return v.Tup[i]
	}
	if v.T == nil {
		sfail("field %s of untyped value in %s", name, e.String())
	}
	t := v.T
	if p, ok := t.Underlying().(*types.Pointer); ok {
		// auto-deref through the heap
		et := p.Elem()
		v = Val{S: x.heapLoad(c.st, et, "(p_reg "+v.S+")", "(p_idx "+v.S+")"), T: et}
		t = et
	}
	st, ok := t.Underlying().(*types.Struct)
	if !ok {
		sfail("field %s of non-struct %s", name, t)
	}
	si := x.te.structOf(t)
	for i := 0; i < st.NumFields(); i++ {
		if st.Field(i).Name() == name {
			return Val{S: "(" + si.fields[i] + " " + v.S + ")", T: st.Field(i).Type()}
		}
	}
	// embedded promotion (one level)
	for i := 0; i < st.NumFields(); i++ {
		if st.Field(i).Embedded() {
			if est, ok := st.Field(i).Type().Underlying().(*types.Struct); ok {
				for j := 0; j < est.NumFields(); j++ {
					if est.Field(j).Name() == name {
						inner := Val{S: "(" + si.fields[i] + " " + v.S + ")", T: st.Field(i).Type()}
						return c.field(inner, name, e)
					}
				}
			}
		}
	}
	sfail("no field %s in %s", name, t)
	return Val{}
}

func (c *SpecCtx) index(v Val, i string, e SExpr) Val {
	x := c.x
	if v.T == nil {
		sfail("index of untyped value in %s", e.String())
	}
	switch u := v.T.Underlying().(type) {
	case *types.Slice:
		return Val{S: x.heapLoad(c.st, u.Elem(), "(s_reg "+v.S+")", "(+ (s_off "+v.S+") "+i+")"), T: u.Elem()}
	case *types.Array:
		return Val{S: "(select " + v.S + " " + i + ")", T: u.Elem()}
	case *types.Basic:
		if u.Info()&types.IsString != 0 {
			bt := types.Typ[types.Uint8]
			return Val{S: x.heapLoad(c.st, bt, "(s_reg "+v.S+")", "(+ (s_off "+v.S+") "+i+")"), T: bt}
		}
	case *types.Pointer:
		if a, ok := u.Elem().Underlying().(*types.Array); ok {
			return Val{S: x.heapLoad(c.st, a.Elem(), "(p_reg "+v.S+")", i), T: a.Elem()}
		}
	}
	sfail("cannot index %s", v.T)
	return Val{}
}

func (c *SpecCtx) methodCall(e *SCall) Val {
	x := c.x
	recv := c.Eval(e.Args[0])
	if recv.T == nil {
		sfail("method %s on untyped value", e.Fn)
	}
	var fn *ssa.Function
	for _, t := range []types.Type{recv.T, types.NewPointer(recv.T)} {
		ms := x.prog.MethodSets.MethodSet(t)
		for i := 0; i < ms.Len(); i++ {
			if ms.At(i).Obj().Name() == e.Fn {
				fn = x.prog.MethodValue(ms.At(i))
			}
		}
		if fn != nil {
			break
		}
	}
	if fn == nil {
		sfail("no method %s on %s", e.Fn, recv.T)
	}
	if _, isPtr := fn.Signature.Recv().Type().Underlying().(*types.Pointer); isPtr {
		if _, vIsPtr := recv.T.Underlying().(*types.Pointer); !vIsPtr {
			sfail("method %s needs a pointer receiver", e.Fn)
		}
	}
	args := []Val{recv}
	for i := 1; i < len(e.Args); i++ {
		a := c.Eval(e.Args[i])
		if a.T == nil && i < len(fn.Params) {
			pt := fn.Params[i].Type()
			if isFloat(pt) {
				a = c.toFloat(a, e.Args[i])
			}
			a.T = pt
			a.Bltn = ""
		}
		args = append(args, a)
	}
	return x.specCallGo(c, fn, args)
}

func (c *SpecCtx) call(e *SCall) Val {
	x := c.x
	if e.Method {
		return c.methodCall(e)
	}
	arg := func(i int) Val {
		if i >= len(e.Args) {
			sfail("%s: missing argument %d", e.Fn, i)
		}
		return c.Eval(e.Args[i])
	}
	switch e.Fn {
	case "len", "cap":
		v := arg(0)
		if v.T != nil {
			if a, ok := v.T.Underlying().(*types.Array); ok {
				return specVal(fmt.Sprint(a.Len()), "Int")
			}
		}
		if x.sortOf(v) != "Slice" {
			sfail("len of %s", x.sortOf(v))
		}
		if e.Fn == "len" {
			return specVal("(s_len "+v.S+")", "Int")
		}
		return specVal("(s_cap "+v.S+")", "Int")
	case "region":
		v := arg(0)
		switch x.sortOf(v) {
		case "Slice":
			return specVal("(s_reg "+v.S+")", "Int")
		case "Ptr":
			return specVal("(p_reg "+v.S+")", "Int")
		}
		sfail("region of %s", x.sortOf(v))
	case "offset":
		v := arg(0)
		switch x.sortOf(v) {
		case "Slice":
			return specVal("(s_off "+v.S+")", "Int")
		case "Ptr":
			return specVal("(p_idx "+v.S+")", "Int")
		}
		sfail("offset of %s", x.sortOf(v))
	case "fresh":
		// allocated during this call: region at or above the entry watermark
		v := arg(0)
		if c.old == nil {
			sfail("fresh() needs an old state")
		}
		switch x.sortOf(v) {
		case "Slice":
			return specVal(Or("(= (s_cap "+v.S+") 0)", "(>= (s_reg "+v.S+") "+c.old.nr+")"), "Bool")
		case "Ptr":
			return specVal("(>= (p_reg "+v.S+") "+c.old.nr+")", "Bool")
		}
		sfail("fresh of %s", x.sortOf(v))
	case "allocated":
		v := arg(0)
		switch x.sortOf(v) {
		case "Slice":
			return specVal("(< (s_reg "+v.S+") "+c.st.nr+")", "Bool")
		case "Ptr":
			return specVal("(< (p_reg "+v.S+") "+c.st.nr+")", "Bool")
		}
	case "dyn":
		v := arg(0)
		return specVal("(dyn (p_reg "+v.S+"))", "Int")
	case "typeid":
		id, ok := e.Args[0].(*SIdent)
		if !ok {
			sfail("typeid needs a type name")
		}
		return specVal(fmt.Sprint(x.te.TypeID(c.lookupType(id.Name))), "Int")
	case "deref":
		v := arg(0)
		id, ok := e.Args[1].(*SIdent)
		if !ok {
			sfail("deref needs a type name")
		}
		t := c.lookupType(id.Name)
		return Val{S: x.heapLoad(c.st, t, "(p_reg "+v.S+")", "(p_idx "+v.S+")"), T: t}
	case "finite", "isnan", "isinf":
		v := arg(0)
		fs := x.sortOf(v)
		if fs == "Real" {
			if e.Fn == "finite" {
				return specVal("true", "Bool")
			}
			return specVal("false", "Bool")
		}
		if fs != fpSort {
			sfail("%s of non-float", e.Fn)
		}
		switch e.Fn {
		case "finite":
			return specVal(And(Not("(fp.isNaN "+v.S+")"), Not("(fp.isInfinite "+v.S+")")), "Bool")
		case "isnan":
			return specVal("(fp.isNaN "+v.S+")", "Bool")
		default:
			return specVal("(fp.isInfinite "+v.S+")", "Bool")
		}
	case "same":
		a, b := arg(0), arg(1)
		return specVal(Eq(a.S, b.S), "Bool")
	case "ite":
		cnd := c.Bool(e.Args[0])
		a, b := arg(1), arg(2)
		r := a
		r.S = Ite(cnd, a.S, b.S)
		return r
	case "float":
		v := arg(0)
		return c.toFloat(v, e.Args[0])
	case "abs":
		v := arg(0)
		switch x.sortOf(v) {
		case "Int", "Real":
			return specVal("(ite (>= "+v.S+" 0) "+v.S+" (- "+v.S+"))", x.sortOf(v))
		case fpSort:
			return specVal("(fp.abs "+v.S+")", fpSort)
		}
	case "min", "max":
		a, b := arg(0), arg(1)
		op := "<="
		if x.sortOf(a) == fpSort {
			op = "fp.leq"
		}
		if e.Fn == "max" {
			a, b = b, a
			// max(a,b) = ite(b<=a, a, b) -> after swap: ite(a<=b, b... ) handled below
			return Val{S: Ite("("+op+" "+a.S+" "+b.S+")", b.S, a.S), T: a.T, Bltn: a.Bltn}
		}
		return Val{S: Ite("("+op+" "+a.S+" "+b.S+")", a.S, b.S), T: a.T, Bltn: a.Bltn}
	case "fsin", "fcos", "ftan", "fasin", "facos", "fatan", "fexp", "flog", "fsqrt":
		v := c.toFloat(arg(0), e.Args[0])
		if x.te.FMode != FloatReal {
			sfail("%s is only available in real mode", e.Fn)
		}
		if e.Fn == "fsqrt" {
			x.S.DeclareFun("fsqrt", []string{"Real"}, "Real")
			x.S.Axiom("fsqrt", []string{"fsqrt"}, "(forall ((v Real)) (! (=> (>= v 0.0) (and (>= (fsqrt v) 0.0) (= (* (fsqrt v) (fsqrt v)) v))) :pattern ((fsqrt v))))")
			return specVal("(fsqrt "+v.S+")", "Real")
		}
		return specVal(x.ufFloat(e.Fn, v.S), "Real")
	case "mk":
		// mk(TypeName, field values...) builds a struct value
		id, ok := e.Args[0].(*SIdent)
		tname := ""
		if ok {
			tname = id.Name
		} else if f, ok := e.Args[0].(*SField); ok {
			if b, ok := f.X.(*SIdent); ok {
				tname = b.Name + "." + f.Name
			}
		}
		if tname == "" {
			sfail("mk needs a type name")
		}
		t := c.lookupType(tname)
		si := x.te.structOf(t)
		if len(e.Args)-1 != len(si.fields) {
			sfail("mk(%s): need %d field values", tname, len(si.fields))
		}
		var parts []string
		for i := range si.fields {
			v := arg(i + 1)
			if isFloat(si.ftypes[i]) {
				v = c.toFloat(v, e.Args[i+1])
			}
			parts = append(parts, v.S)
		}
		return Val{S: "(" + si.ctor + " " + strings.Join(parts, " ") + ")", T: t}
	case "pi":
		return specVal(floatLit(x.te, 3.141592653589793), x.te.FloatSort())
	case "pow10":
		n := arg(0)
		fs := x.te.FloatSort()
		x.S.DeclareFun("pow10", []string{"Int"}, fs)
		return specVal("(pow10 "+n.S+")", fs)
	case "f64bits", "f64frombits":
		// the uninterpreted pair behind math.Float64bits / Float64frombits
		v := arg(0)
		fs := x.te.FloatSort()
		x.S.DeclareFun("f64bits", []string{fs}, "Int")
		x.S.DeclareFun("f64frombits", []string{"Int"}, fs)
		if e.Fn == "f64bits" {
			return specVal("(f64bits "+v.S+")", "Int")
		}
		return specVal("(f64frombits "+v.S+")", fs)
	case "errors_is":
		a, b := arg(0), arg(1)
		x.S.DeclareFun("errors_is", []string{"Int", "Int"}, "Bool")
		x.S.Axiom("errors_is", []string{"errors_is"}, "(forall ((e Int) (t Int)) (! (and (=> (and (= e t)) (errors_is e t)) (=> (and (= e 0) (not (= t 0))) (not (errors_is e t)))) :pattern ((errors_is e t))))")
		return specVal("(errors_is "+a.S+" "+b.S+")", "Bool")
	case "onlychanged":
		// onlychanged(p, f1, f2, ...): every field of *p other than f1.. has its old value
		pv := arg(0)
		if pv.T == nil {
			sfail("onlychanged: untyped")
		}
		pt, ok := pv.T.Underlying().(*types.Pointer)
		if !ok {
			sfail("onlychanged needs a pointer to a struct")
		}
		st, ok := pt.Elem().Underlying().(*types.Struct)
		if !ok || c.old == nil {
			sfail("onlychanged needs a pointer to a struct and an old state")
		}
		except := map[string]bool{}
		for _, a := range e.Args[1:] {
			id, ok := a.(*SIdent)
			if !ok {
				sfail("onlychanged: field names expected")
			}
			except[id.Name] = true
		}
		si := x.te.structOf(pt.Elem())
		cur := x.heapLoad(c.st, pt.Elem(), "(p_reg "+pv.S+")", "(p_idx "+pv.S+")")
		old := x.heapLoad(c.old, pt.Elem(), "(p_reg "+pv.S+")", "(p_idx "+pv.S+")")
		var parts []string
		for i := 0; i < st.NumFields(); i++ {
			if except[st.Field(i).Name()] {
				continue
			}
			parts = append(parts, Eq("("+si.fields[i]+" "+cur+")", "("+si.fields[i]+" "+old+")"))
		}
		return specVal(And(parts...), "Bool")
	case "mk_nilptr":
		return Val{S: "(mk_ptr 0 0)", Bltn: "Ptr"}
	case "fid":
		id, ok := e.Args[0].(*SIdent)
		if !ok || c.pkg == nil {
			sfail("fid needs a function name")
		}
		fn := x.lookupFunc(c.pkg, id.Name)
		if fn == nil {
			sfail("fid: unknown function %s", id.Name)
		}
		return specVal(fmt.Sprint(x.funcID(fn)), "Int")
	case "ufn":
		// ufn(name, ResultType, args...): uninterpreted spec function of the
		// argument values at the current heap version
		id, ok := e.Args[0].(*SIdent)
		if !ok {
			sfail("ufn needs a name")
		}
		tn := ""
		switch t := e.Args[1].(type) {
		case *SIdent:
			tn = t.Name
		case *SField:
			if b, ok := t.X.(*SIdent); ok {
				tn = b.Name + "." + t.Name
			}
		}
		rt := c.lookupType(tn)
		var as, sorts []string
		for i := 2; i < len(e.Args); i++ {
			v := arg(i)
			as = append(as, v.S)
			sorts = append(sorts, x.sortOf(v))
		}
		as = append(as, fmt.Sprint(c.st.hver))
		sorts = append(sorts, "Int")
		name := "ufn_" + id.Name
		x.S.DeclareFun(name, sorts, x.te.Sort(rt))
		return Val{S: App(name, as...), T: rt}
	case "uf":
		// uf(name, args...) : uninterpreted Int-valued function of Int arguments
		id := e.Args[0].(*SIdent)
		var as, sorts []string
		for i := 1; i < len(e.Args); i++ {
			v := arg(i)
			as = append(as, v.S)
			sorts = append(sorts, x.sortOf(v))
		}
		x.S.DeclareFun("uf_"+id.Name, sorts, "Int")
		return specVal(App("uf_"+id.Name, as...), "Int")
	}
	// named predicate
	if p, ok := x.db.Preds[e.Fn]; ok {
		if len(p.Params) != len(e.Args) {
			sfail("pred %s: arity", e.Fn)
		}
		if p.Rec {
			var args []Val
			for i := range e.Args {
				av := arg(i)
				if c.binders == 0 && x.S.Inline == 0 && av.S != "" && av.S != "!nil" {
					av.S = x.S.Define("a", x.sortOf(av), av.S)
				}
				args = append(args, av)
			}
			return c.recPredCall(p, args)
		}
		if c.depth > 20 {
			sfail("pred recursion too deep in %s", e.Fn)
		}
		n := *c
		n.depth = c.depth + 1
		n.vars = make(map[string]Val, len(c.vars)+len(p.Params))
		for k, vv := range c.vars {
			n.vars[k] = vv
		}
		for i, pn := range p.Params {
			av := arg(i)
			if c.binders == 0 && x.S.Inline == 0 && av.S != "" && av.S != "!nil" && av.DP == nil && av.Clo == nil {
				av.S = x.S.Define("a", x.sortOf(av), av.S)
			}
			n.vars[pn] = av
		}
		return n.Eval(p.Body)
	}
	// pure Go function of the package, inlined from its SSA
	if c.pkg != nil {
		if fn := x.lookupFunc(c.pkg, e.Fn); fn != nil {
			var args []Val
			for i := range e.Args {
				a := arg(i)
				if a.T == nil && i < len(fn.Params) {
					pt := fn.Params[i].Type()
					if isFloat(pt) {
						a = c.toFloat(a, e.Args[i])
					}
					a.T = pt
					a.Bltn = ""
				}
				args = append(args, a)
			}
			return x.specCallGo(c, fn, args)
		}
	}
	sfail("unknown spec function %s", e.Fn)
	return Val{}
}

func (c *SpecCtx) lookupType(name string) types.Type {
	if strings.HasPrefix(name, "P_") {
		return types.NewPointer(c.lookupType(name[2:]))
	}
	if i := strings.Index(name, "."); i > 0 && c.pkg != nil {
		for _, imp := range c.pkg.Imports() {
			if imp.Name() == name[:i] {
				if obj := imp.Scope().Lookup(name[i+1:]); obj != nil {
					if tn, ok := obj.(*types.TypeName); ok {
						return tn.Type()
					}
				}
			}
		}
		sfail("unknown type %s", name)
	}
	if c.pkg != nil {
		if obj := c.pkg.Scope().Lookup(name); obj != nil {
			if tn, ok := obj.(*types.TypeName); ok {
				return tn.Type()
			}
		}
	}
	if obj := types.Universe.Lookup(name); obj != nil {
		if tn, ok := obj.(*types.TypeName); ok {
			return tn.Type()
		}
	}
	sfail("unknown type %s", name)
	return nil
}

// constVal converts a Go constant to a Val.
func (x *Exec) constVal(cv constant.Value, t types.Type) Val {
	if cv == nil {
		// nil / zero value
		return Val{S: x.te.Zero(t), T: t}
	}
	switch {
	case isBool(t):
		if constant.BoolVal(cv) {
			return Val{S: "true", T: t}
		}
		return Val{S: "false", T: t}
	case isInteger(t):
		bi, ok := new(big.Int).SetString(cv.ExactString(), 10)
		if !ok {
			// could be a float-y constant representable as int
			f, _ := constant.Float64Val(cv)
			bi = big.NewInt(int64(f))
		}
		return Val{S: BigLit(bi), T: t}
	case isFloat(t):
		f, _ := constant.Float64Val(constant.ToFloat(cv))
		if b, ok := t.Underlying().(*types.Basic); ok && b.Kind() == types.Float32 {
			f = float64(float32(f))
		}
		return Val{S: floatLit(x.te, f), T: t}
	case isString(t):
		return x.stringConst(constant.StringVal(cv), t)
	}
	unsup("constant of type %s", t)
	return Val{}
}

// ---- recursive predicates: uninterpreted function over (heaps, params) with
// its definition as a pattern-triggered axiom ----

type recDef struct {
	uf       string
	heapKeys []string
	sorts    []string
	building bool
	collect  map[string]bool
}

func (c *SpecCtx) recPredCall(p *Pred, args []Val) Val {
	x := c.x
	if x.recDefs == nil {
		x.recDefs = map[string]*recDef{}
	}
	rd := x.recDefs[p.Name]
	if rd == nil {
		rd = &recDef{uf: "rp_" + p.Name, building: true, collect: map[string]bool{}}
		x.recDefs[p.Name] = rd
		// collect the heaps read by the body (recursive calls evaluate to true)
		x.S.Inline++
		func() {
			defer func() { x.S.Inline-- }()
			qs := &State{cells: map[cellKey]Val{}, heaps: map[string]string{}, ghost: map[string]string{}, pc: "true", nr: c.st.nr, symHeaps: rd.collect}
			n := &SpecCtx{x: x, st: qs, old: qs, vars: map[string]Val{}, pkg: c.pkg, binders: 1}
			for i, pn := range p.Params {
				name := x.S.Fresh("rpa")
				n.vars[pn] = Val{S: name, T: args[i].T, Bltn: args[i].Bltn}
				rd.sorts = append(rd.sorts, x.sortOf(args[i]))
			}
			if p.Ret == "" {
				n.Bool(p.Body)
			} else {
				n.Eval(p.Body)
			}
		}()
		for k := range rd.collect {
			rd.heapKeys = append(rd.heapKeys, k)
		}
		sortStrings(rd.heapKeys)
		rd.building = false
		var sorts []string
		for _, k := range rd.heapKeys {
			sorts = append(sorts, x.te.HeapSort(x.heapTypes[k]))
		}
		sorts = append(sorts, rd.sorts...)
		x.S.DeclareFun(rd.uf, sorts, x.recSort(p))
	}
	if rd.building {
		return x.recVal(p, map[string]string{"": "true", "int": "0", "float": x.te.Zero(types.Typ[types.Float64])}[p.Ret])
	}
	var hargs []string
	maskedHeaps := map[string]string{}
	for _, k := range rd.heapKeys {
		if c.st.symHeaps != nil {
			c.st.symHeaps[k] = true
			hargs = append(hargs, symHeapName(k))
		} else if p.Masked {
			m := x.maskedHeap(c, k)
			maskedHeaps[k] = m
			hargs = append(hargs, m)
		} else {
			hargs = append(hargs, x.heap(c.st, x.heapTypes[k]))
		}
	}
	var pargs []string
	for _, a := range args {
		pargs = append(pargs, a.S)
	}
	app := App(rd.uf, append(hargs, pargs...)...)
	if p.Masked && c.maskN != "" && x.entry != nil && c.maskN != x.entry.nr && c.st.symHeaps == nil && c.binders == 0 {
		// a callee states the value at ITS entry boundary (the allocation mark at the
		// call); for arguments whose memory already existed at this unit's entry the
		// value over this unit's boundary is the same one: what pre-existing memory
		// reaches is pre-existing, as long as nothing is stored into it (the frame
		// obligations of the unit)
		c0 := *c
		c0.maskN = ""
		var h0 []string
		for _, k := range rd.heapKeys {
			h0 = append(h0, x.maskedHeap(&c0, k))
		}
		app0 := App(rd.uf, append(h0, pargs...)...)
		var below []string
		for _, a := range args {
			if a.T != nil && a.S != "" {
				below = append(below, x.belowBoundary(a.S, a.T, x.entry.nr, 0))
			}
		}
		x.pendingFacts = append(x.pendingFacts, Imp(And(below...), Eq(app, app0)))
	}
	if os.Getenv("GOVC_DEBUG_REC") != "" {
		fmt.Fprintf(os.Stderr, "rec %s binders=%d sym=%v unfolded=%v\n", app, c.binders, c.st.symHeaps != nil, x.unfolded[app])
	}
	if c.binders == 0 && c.st.symHeaps == nil && !(x.contract != nil && x.contract.NoUnfold[p.Name]) {
		// ground occurrence: add the one-level unfolding as a definitional instance
		key := app
		if !x.unfolded[key] {
			if x.unfolded == nil {
				x.unfolded = map[string]bool{}
			}
			x.unfolded[key] = true
			n := *c
			n.binders = 1 // inner occurrences stay folded
			if p.Masked {
				// the body reads the masked heaps
				ms := c.st.clone()
				for k, m := range maskedHeaps {
					ms.heaps[k] = m
				}
				n.st = ms
			}
			n.vars = make(map[string]Val, len(c.vars)+len(p.Params))
			for k, vv := range c.vars {
				n.vars[k] = vv
			}
			for i, pn := range p.Params {
				n.vars[pn] = args[i]
			}
			var body string
			if p.Ret == "" {
				body = n.Bool(p.Body)
			} else {
				body = n.Eval(p.Body).S
			}
			x.pendingFacts = append(x.pendingFacts, Eq(app, body))
		}
	}
	return x.recVal(p, app)
}

// maskedHeap: the heap of key k restricted to the regions below the boundary
// of the context (an uninterpreted restriction with two axioms: it agrees with
// the heap below the boundary, and it ignores stores at or above it).
func (x *Exec) maskedHeap(c *SpecCtx, k string) string {
	t := x.heapTypes[k]
	h := x.heap(c.st, t)
	if x.maskTerms[h] {
		return h
	}
	n := c.maskN
	if n == "" {
		if x.entry != nil {
			n = x.entry.nr
		} else {
			n = c.st.nr
		}
	}
	hs := x.te.HeapSort(t)
	fn := "mask_" + sanitize(k)
	x.S.DeclareFun(fn, []string{hs, "Int"}, hs)
	inner := "(Array Int " + x.te.Sort(t) + ")"
	x.S.Axiom(fn+"_below", []string{fn}, "(forall ((H "+hs+") (n Int) (r Int)) (! (=> (< r n) (= (select ("+fn+" H n) r) (select H r))) :pattern ((select ("+fn+" H n) r))))")
	x.S.Axiom(fn+"_store", []string{fn}, "(forall ((H "+hs+") (n Int) (r Int) (a "+inner+")) (! (=> (>= r n) (= ("+fn+" (store H r a) n) ("+fn+" H n))) :pattern (("+fn+" (store H r a) n))))")
	m := x.S.Define("mh", hs, "("+fn+" "+h+" "+n+")")
	if x.maskTerms == nil {
		x.maskTerms = map[string]bool{}
	}
	x.maskTerms[m] = true
	if x.maskKeys == nil {
		x.maskKeys = map[string]bool{}
	}
	x.maskKeys[k] = true
	return m
}

// belowBoundary: every slice and pointer inside the value s of type t points
// into a region allocated before the boundary n.
func (x *Exec) belowBoundary(s string, t types.Type, n string, depth int) string {
	switch u := t.Underlying().(type) {
	case *types.Slice:
		return "(< (s_reg " + s + ") " + n + ")"
	case *types.Basic:
		if u.Info()&types.IsString != 0 {
			return "(< (s_reg " + s + ") " + n + ")"
		}
		if u.Kind() == types.UnsafePointer {
			return "(< (p_reg " + s + ") " + n + ")"
		}
	case *types.Pointer:
		return "(< (p_reg " + s + ") " + n + ")"
	case *types.Struct:
		if depth > 3 {
			return "false"
		}
		si := x.te.structOf(t)
		var parts []string
		for i, f := range si.fields {
			parts = append(parts, x.belowBoundary("("+f+" "+s+")", si.ftypes[i], n, depth+1))
		}
		return And(parts...)
	case *types.Array:
		if u.Len() > 8 {
			return "false"
		}
		var parts []string
		for i := int64(0); i < u.Len(); i++ {
			parts = append(parts, x.belowBoundary(fmt.Sprintf("(select %s %d)", s, i), u.Elem(), n, depth+1))
		}
		return And(parts...)
	}
	return "true"
}

func (x *Exec) recSort(p *Pred) string {
	switch p.Ret {
	case "float":
		return x.te.FloatSort()
	case "int":
		return "Int"
	}
	return "Bool"
}

func (x *Exec) recVal(p *Pred, term string) Val {
	switch p.Ret {
	case "float":
		return Val{S: term, T: types.Typ[types.Float64]}
	case "int":
		return specVal(term, "Int")
	}
	return specVal(term, "Bool")
}

func symHeapName(k string) string { return "HQ_" + sanitize(k) }

func sortStrings(a []string) {
	for i := 1; i < len(a); i++ {
		for j := i; j > 0 && a[j] < a[j-1]; j-- {
			a[j], a[j-1] = a[j-1], a[j]
		}
	}
}

// reindexBound rewrites a body in which the bound variable q is used as a
// slice index, "(+ (s_off S) q)", so that the bound variable becomes the
// absolute index: q := q - (s_off S).  The quantified formula is equivalent
// (the substitution is a bijection on Int) and its select-terms become clean
// E-matching triggers without arithmetic.
func reindexBound(body, q string) string {
	pre := "(+ (s_off "
	i := strings.Index(body, pre)
	var sTerm string
	for i >= 0 {
		// parse the S term after "(+ (s_off "
		j := i + len(pre)
		k := matchTerm(body, j)
		if k > j && strings.HasPrefix(body[k:], ") "+q+")") {
			sTerm = body[j:k]
			break
		}
		n := strings.Index(body[i+1:], pre)
		if n < 0 {
			break
		}
		i = i + 1 + n
	}
	if sTerm == "" || strings.Contains(sTerm, q) {
		return body
	}
	full := "(+ (s_off " + sTerm + ") " + q + ")"
	const mark = "\x00IDX\x00"
	b := strings.ReplaceAll(body, full, mark)
	// remaining occurrences of q as a token
	b = replaceToken(b, q, "(- "+q+" (s_off "+sTerm+"))")
	b = strings.ReplaceAll(b, mark, q)
	return b
}

// matchTerm returns the index just past the s-expression starting at i.
func matchTerm(s string, i int) int {
	if i >= len(s) {
		return i
	}
	if s[i] != '(' {
		j := i
		for j < len(s) && s[j] != ' ' && s[j] != ')' {
			j++
		}
		return j
	}
	d := 0
	for j := i; j < len(s); j++ {
		switch s[j] {
		case '(':
			d++
		case ')':
			d--
			if d == 0 {
				return j + 1
			}
		}
	}
	return len(s)
}

func replaceToken(s, tok, repl string) string {
	var sb strings.Builder
	i := 0
	for i < len(s) {
		j := strings.Index(s[i:], tok)
		if j < 0 {
			sb.WriteString(s[i:])
			break
		}
		j += i
		end := j + len(tok)
		okL := j == 0 || s[j-1] == ' ' || s[j-1] == '('
		okR := end == len(s) || s[end] == ' ' || s[end] == ')'
		sb.WriteString(s[i:j])
		if okL && okR {
			sb.WriteString(repl)
		} else {
			sb.WriteString(tok)
		}
		i = end
	}
	return sb.String()
}
