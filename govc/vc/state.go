package vc

import (
	"fmt"
	"go/types"
	"sort"
	"strings"

	"golang.org/x/tools/go/ssa"
)

// Val is a symbolic value: an SMT term with its Go type, or a Go-side value
// (derived pointer, closure, tuple, static function).
type Val struct {
	S    string
	T    types.Type
	DP   *DPtr
	Clo  *Closure
	Tup  []Val
	Fn   *ssa.Function
	Bltn string // builtin name
	Ifc  *ifcInfo // for an interface value built here from a concrete value: that value (devirtualisation)
}

type ifcInfo struct {
	conc  Val
	ctype types.Type
}

type cellKey struct {
	frame int
	a     *ssa.Alloc
}

// DPtr is a pointer known structurally: a root (local cell or heap location)
// plus a path of field / index steps.
type DPtr struct {
	Cell   *cellKey
	HeapT  types.Type // element type of the heap the root lives in
	Reg    string
	Idx    string
	Path   []step
	Unsafe bool // obtained by conversion from unsafe.Pointer (dyn tag must be checked)
}

type step struct {
	isIdx bool
	field int
	idx   string
	ct    types.Type // container type (struct or array) before the step
}

type Closure struct {
	Fn       *ssa.Function
	Bindings []Val
}

// State is the symbolic state at a program point.
type State struct {
	cells map[cellKey]Val
	heaps map[string]string
	heapT map[string]types.Type
	nr    string
	pc    string
	ghost map[string]string
	nonNil map[string]bool
	symHeaps map[string]bool // non-nil: heaps are bound variables (recursive predicate definitions)
	hver int // heap version: bumped on every heap write/havoc (keys uninterpreted spec functions of heap-dependent values)
}

func (s *State) clone() *State {
	n := &State{cells: make(map[cellKey]Val, len(s.cells)), heaps: make(map[string]string, len(s.heaps)),
		heapT: s.heapT, nr: s.nr, pc: s.pc, ghost: make(map[string]string, len(s.ghost)), hver: s.hver}
	for k, v := range s.cells {
		n.cells[k] = v
	}
	for k, v := range s.heaps {
		n.heaps[k] = v
	}
	for k, v := range s.ghost {
		n.ghost[k] = v
	}
	if len(s.nonNil) > 0 {
		n.nonNil = make(map[string]bool, len(s.nonNil))
		for k := range s.nonNil {
			n.nonNil[k] = true
		}
	}
	return n
}

type unsupported struct{ msg string }

func (u unsupported) Error() string { return "unsupported: " + u.msg }

func unsup(format string, a ...interface{}) {
	panic(unsupported{fmt.Sprintf(format, a...)})
}

// heap returns the current term of the heap for element type t, creating the
// initial heap constant on first use.
func (x *Exec) heap(st *State, t types.Type) string {
	k := x.te.HeapKey(t)
	if st.symHeaps != nil {
		st.symHeaps[k] = true
		x.heapTypes[k] = t
		return symHeapName(k)
	}
	if h, ok := st.heaps[k]; ok {
		return h
	}
	h0 := x.heap0(t)
	st.heaps[k] = h0
	return h0
}

// heap0 is the heap of type t at function entry.
func (x *Exec) heap0(t types.Type) string {
	k := x.te.HeapKey(t)
	if h, ok := x.entryHeaps[k]; ok {
		return h
	}
	name := "H0_" + sanitize(k)
	if x.S.Has(name) {
		name = x.S.Fresh(name + "_")
	}
	x.S.Raw(fmt.Sprintf("(declare-const %s %s)", name, x.te.HeapSort(t)), []string{name}, x.te.HeapSort(t))
	x.entryHeaps[k] = name
	x.heapTypes[k] = t
	return name
}

func (x *Exec) bumpHeapVersion(st *State) {
	x.hverCounter++
	st.hver = x.hverCounter
}

// dataHeap: heaps that can hold geometry data (everything except raw bytes,
// interface boxes and error values); only these key the uninterpreted spec
// functions of heap-dependent values.
func dataHeap(t types.Type) bool {
	switch u := t.Underlying().(type) {
	case *types.Interface:
		return false
	case *types.Basic:
		return u.Kind() != types.Uint8 && u.Kind() != types.Int32 && u.Info()&types.IsString == 0
	}
	return true
}

func (x *Exec) setHeap(st *State, t types.Type, term string) {
	if dataHeap(t) {
		x.bumpHeapVersion(st)
	}
	k := x.te.HeapKey(t)
	x.heapTypes[k] = t
	st.heaps[k] = x.S.Define("h", x.te.HeapSort(t), term)
}

func (x *Exec) heapLoad(st *State, t types.Type, reg, idx string) string {
	return fmt.Sprintf("(select (select %s %s) %s)", x.heap(st, t), reg, idx)
}

func (x *Exec) heapStore(st *State, t types.Type, reg, idx, v string) {
	h := x.heap(st, t)
	x.setHeap(st, t, fmt.Sprintf("(store %s %s (store (select %s %s) %s %s))", h, reg, h, reg, idx, v))
}

// newRegion allocates a fresh region id.
func (x *Exec) newRegion(st *State, t types.Type) string {
	r := st.nr
	st.nr = x.S.Define("nr", "Int", "(+ "+r+" 1)")
	if t != nil {
		x.assume(st, fmt.Sprintf("(= (dyn %s) %d)", r, x.te.TypeID(t)))
	}
	return r
}

// flushFacts moves pending definitional instances (recursive-predicate
// unfoldings) into the path condition.
func (x *Exec) flushFacts(st *State) {
	if len(x.pendingFacts) == 0 {
		return
	}
	fs := x.pendingFacts
	x.pendingFacts = nil
	st.pc = x.S.Define("pc", "Bool", And(append([]string{st.pc}, fs...)...))
}

// branch adds a control-flow condition to the path condition.
func (x *Exec) branch(st *State, cond string) {
	if cond == "true" {
		return
	}
	st.pc = x.S.Define("pc", "Bool", And(st.pc, cond))
}

func (x *Exec) assume(st *State, cond string) {
	if x.quiet > 0 {
		// inside a spec-level call of real code: facts (well-formedness of loaded
		// values, assumed library contracts) must not become part of the branch
		// conditions that select the result; keep closed ones as global facts
		if cond != "true" && x.S.Inline == 0 {
			x.pendingFacts = append(x.pendingFacts, cond)
		}
		return
	}
	x.flushFacts(st)
	if cond == "true" {
		return
	}
	st.pc = x.S.Define("pc", "Bool", And(st.pc, cond))
}

// merge joins states arriving at a block.
func (x *Exec) merge(ins []*State) *State {
	if len(ins) == 1 {
		return ins[0]
	}
	// drop infeasible (pc == false)
	var live []*State
	for _, s := range ins {
		if s.pc != "false" {
			live = append(live, s)
		}
	}
	if len(live) == 0 {
		return ins[0]
	}
	if len(live) == 1 {
		return live[0]
	}
	ins = live
	out := &State{cells: map[cellKey]Val{}, heaps: map[string]string{}, heapT: ins[0].heapT, ghost: map[string]string{}}
	pcs := make([]string, len(ins))
	for i, s := range ins {
		pcs[i] = s.pc
	}
	out.pc = x.S.Define("pc", "Bool", Or(pcs...))
	mergeTerms := func(sort string, ts []string) string {
		same := true
		for _, t := range ts[1:] {
			if t != ts[0] {
				same = false
			}
		}
		if same {
			return ts[0]
		}
		t := ts[len(ts)-1]
		for i := len(ts) - 2; i >= 0; i-- {
			t = Ite(pcs[i], ts[i], t)
		}
		return x.S.Define("m", sort, t)
	}
	// cells
	var keys []cellKey
	for k := range ins[0].cells {
		all := true
		for _, s := range ins[1:] {
			if _, ok := s.cells[k]; !ok {
				all = false
				break
			}
		}
		if all {
			keys = append(keys, k)
		}
	}
	for _, k := range keys {
		v0 := ins[0].cells[k]
		if v0.DP != nil || v0.Clo != nil || v0.Fn != nil || v0.Tup != nil {
			same := true
			for _, s := range ins[1:] {
				if !sameGoVal(v0, s.cells[k]) {
					same = false
				}
			}
			if same {
				out.cells[k] = v0
			} else {
				out.cells[k] = Val{T: v0.T, S: "!unmergeable"}
			}
			continue
		}
		ts := make([]string, len(ins))
		bad := false
		for i, s := range ins {
			v := s.cells[k]
			if v.DP != nil || v.Clo != nil || v.Fn != nil || v.S == "!unmergeable" {
				bad = true
			}
			ts[i] = v.S
		}
		if bad {
			out.cells[k] = Val{T: v0.T, S: "!unmergeable"}
			continue
		}
		out.cells[k] = Val{S: mergeTerms(x.te.Sort(v0.T), ts), T: v0.T}
	}
	// heaps
	hk := map[string]bool{}
	for _, s := range ins {
		for k := range s.heaps {
			hk[k] = true
		}
	}
	var hks []string
	for k := range hk {
		hks = append(hks, k)
	}
	sort.Strings(hks)
	for _, k := range hks {
		ts := make([]string, len(ins))
		for i, s := range ins {
			if h, ok := s.heaps[k]; ok {
				ts[i] = h
			} else {
				ts[i] = x.entryHeaps[k]
			}
		}
		out.heaps[k] = mergeTerms(x.te.HeapSort(x.heapTypes[k]), ts)
	}
	// heap version
	out.hver = ins[0].hver
	for _, s := range ins[1:] {
		if s.hver != out.hver {
			x.hverCounter++
			out.hver = x.hverCounter
			break
		}
	}
	// known non-nil regions: intersection
	for k := range ins[0].nonNil {
		all := true
		for _, s := range ins[1:] {
			if !s.nonNil[k] {
				all = false
			}
		}
		if all {
			if out.nonNil == nil {
				out.nonNil = map[string]bool{}
			}
			out.nonNil[k] = true
		}
	}
	// nr
	{
		ts := make([]string, len(ins))
		for i, s := range ins {
			ts[i] = s.nr
		}
		out.nr = mergeTerms("Int", ts)
	}
	// ghost
	for k := range ins[0].ghost {
		ts := make([]string, len(ins))
		ok := true
		for i, s := range ins {
			g, has := s.ghost[k]
			if !has {
				ok = false
			}
			ts[i] = g
		}
		if ok {
			out.ghost[k] = mergeTerms(x.ghostSorts[k], ts)
		}
	}
	return out
}

func sameGoVal(a, b Val) bool {
	if a.Fn != nil || b.Fn != nil {
		return a.Fn == b.Fn
	}
	if a.Clo != nil || b.Clo != nil {
		if a.Clo == nil || b.Clo == nil || a.Clo.Fn != b.Clo.Fn || len(a.Clo.Bindings) != len(b.Clo.Bindings) {
			return false
		}
		for i := range a.Clo.Bindings {
			if !sameGoVal(a.Clo.Bindings[i], b.Clo.Bindings[i]) {
				return false
			}
		}
		return true
	}
	if a.DP != nil || b.DP != nil {
		if a.DP == nil || b.DP == nil {
			return false
		}
		return dpString(a.DP) == dpString(b.DP)
	}
	return a.S == b.S
}

func dpString(d *DPtr) string {
	var sb strings.Builder
	if d.Cell != nil {
		fmt.Fprintf(&sb, "cell(%d,%p)", d.Cell.frame, d.Cell.a)
	} else {
		fmt.Fprintf(&sb, "heap(%s,%s,%s)", shortTypeName(d.HeapT), d.Reg, d.Idx)
	}
	for _, s := range d.Path {
		if s.isIdx {
			fmt.Fprintf(&sb, "[%s]", s.idx)
		} else {
			fmt.Fprintf(&sb, ".%d", s.field)
		}
	}
	return sb.String()
}
