// Package vc is the verification-condition generator: symbolic execution of
// go/ssa (NaiveForm) functions against contracts, producing SMT-LIB 2 scripts.
package vc

import (
	"fmt"
	"sort"
	"strings"
)

// Script accumulates declarations/definitions in order.  Every obligation is
// emitted as the dependency slice of this script plus the negated goal.
type Script struct {
	decls  []*decl
	bySym  map[string]*decl
	nextID int
	axioms []*decl // axioms attached to symbols (included when the symbol is used)
	Inline int     // >0: Define returns the term itself (we are under a quantifier binder)
}

type decl struct {
	idx   int
	text  string   // full SMT command(s)
	syms  []string // symbols introduced
	deps  []*decl
	axFor []string // for axioms: included when ALL these symbols are used... (any)
	isAx  bool
}

func NewScript() *Script {
	return &Script{bySym: map[string]*decl{}}
}

func (s *Script) add(text string, syms []string, body string) *decl {
	d := &decl{idx: len(s.decls), text: text, syms: syms}
	d.deps = s.depsOf(body)
	s.decls = append(s.decls, d)
	for _, y := range syms {
		s.bySym[y] = d
	}
	return d
}

// depsOf tokenises an s-expression and returns the decls of all known symbols.
func (s *Script) depsOf(body string) []*decl {
	seen := map[*decl]bool{}
	var out []*decl
	i := 0
	n := len(body)
	for i < n {
		c := body[i]
		if c == '(' || c == ')' || c == ' ' || c == '\n' || c == '\t' {
			i++
			continue
		}
		if c == '|' {
			j := i + 1
			for j < n && body[j] != '|' {
				j++
			}
			tok := body[i : j+1]
			if d, ok := s.bySym[tok]; ok && !seen[d] {
				seen[d] = true
				out = append(out, d)
			}
			i = j + 1
			continue
		}
		j := i
		for j < n && body[j] != '(' && body[j] != ')' && body[j] != ' ' && body[j] != '\n' && body[j] != '\t' {
			j++
		}
		tok := body[i:j]
		if d, ok := s.bySym[tok]; ok && !seen[d] {
			seen[d] = true
			out = append(out, d)
		}
		i = j
	}
	return out
}

func (s *Script) Fresh(prefix string) string {
	s.nextID++
	return fmt.Sprintf("%s%d", prefix, s.nextID)
}

// Declare a fresh constant of the given sort.
func (s *Script) Const(prefix, sort string) string {
	name := s.Fresh(prefix)
	s.add(fmt.Sprintf("(declare-const %s %s)", name, sort), []string{name}, sort)
	return name
}

// DeclareFun declares an uninterpreted function once.
func (s *Script) DeclareFun(name string, args []string, ret string) {
	if _, ok := s.bySym[name]; ok {
		return
	}
	s.add(fmt.Sprintf("(declare-fun %s (%s) %s)", name, strings.Join(args, " "), ret), []string{name}, strings.Join(args, " ")+" "+ret)
}

// Axiom adds an assertion that is included whenever any of syms is in the slice.
func (s *Script) Axiom(key string, syms []string, body string) {
	if _, ok := s.bySym["ax!"+key]; ok {
		return
	}
	d := s.add(fmt.Sprintf("(assert %s)", body), []string{"ax!" + key}, body)
	d.isAx = true
	d.axFor = syms
	s.axioms = append(s.axioms, d)
}

// Define names a term.
func (s *Script) Define(prefix, sort, term string) string {
	if isAtom(term) || s.Inline > 0 {
		return term
	}
	name := s.Fresh(prefix)
	s.add(fmt.Sprintf("(define-fun %s () %s %s)", name, sort, term), []string{name}, sort+" "+term)
	return name
}

func (s *Script) Raw(text string, syms []string, body string) {
	s.add(text, syms, body)
}

func (s *Script) Has(sym string) bool { _, ok := s.bySym[sym]; return ok }

func isAtom(t string) bool {
	return !strings.ContainsAny(t, "( ")
}

// Slice returns the script text needed for the given terms (in declaration order).
func (s *Script) Slice(terms ...string) string {
	need := map[*decl]bool{}
	var visit func(d *decl)
	visit = func(d *decl) {
		if need[d] {
			return
		}
		need[d] = true
		for _, e := range d.deps {
			visit(e)
		}
	}
	for _, t := range terms {
		for _, d := range s.depsOf(t) {
			visit(d)
		}
	}
	// axioms: include when any trigger symbol is needed; iterate to fixpoint
	changed := true
	for changed {
		changed = false
		for _, a := range s.axioms {
			if need[a] {
				continue
			}
			for _, y := range a.axFor {
				if d, ok := s.bySym[y]; ok && need[d] {
					visit(a)
					changed = true
					break
				}
			}
		}
	}
	var ds []*decl
	for d := range need {
		ds = append(ds, d)
	}
	sort.Slice(ds, func(i, j int) bool { return ds[i].idx < ds[j].idx })
	var sb strings.Builder
	for _, d := range ds {
		sb.WriteString(d.text)
		sb.WriteByte('\n')
	}
	return sb.String()
}

// ---- term helpers (with light simplification) ----

func And(ts ...string) string {
	var out []string
	for _, t := range ts {
		if t == "true" || t == "" {
			continue
		}
		if t == "false" {
			return "false"
		}
		out = append(out, t)
	}
	switch len(out) {
	case 0:
		return "true"
	case 1:
		return out[0]
	}
	return "(and " + strings.Join(out, " ") + ")"
}

func Or(ts ...string) string {
	var out []string
	for _, t := range ts {
		if t == "false" || t == "" {
			continue
		}
		if t == "true" {
			return "true"
		}
		out = append(out, t)
	}
	switch len(out) {
	case 0:
		return "false"
	case 1:
		return out[0]
	}
	return "(or " + strings.Join(out, " ") + ")"
}

func Not(t string) string {
	switch t {
	case "true":
		return "false"
	case "false":
		return "true"
	}
	if strings.HasPrefix(t, "(not ") && strings.HasSuffix(t, ")") && balanced(t[5:len(t)-1]) {
		return t[5 : len(t)-1]
	}
	return "(not " + t + ")"
}

func balanced(t string) bool {
	d := 0
	for i := 0; i < len(t); i++ {
		switch t[i] {
		case '(':
			d++
		case ')':
			d--
			if d < 0 {
				return false
			}
			if d == 0 && i != len(t)-1 {
				return false
			}
		case ' ':
			if d == 0 {
				return false
			}
		}
	}
	return d == 0
}

func Imp(a, b string) string {
	if a == "true" {
		return b
	}
	if a == "false" || b == "true" {
		return "true"
	}
	return "(=> " + a + " " + b + ")"
}

func Ite(c, a, b string) string {
	if c == "true" {
		return a
	}
	if c == "false" {
		return b
	}
	if a == b {
		return a
	}
	return "(ite " + c + " " + a + " " + b + ")"
}

func Eq(a, b string) string {
	if a == b {
		return "true"
	}
	return "(= " + a + " " + b + ")"
}

func App(f string, args ...string) string {
	return "(" + f + " " + strings.Join(args, " ") + ")"
}

func IntLit(v int64) string {
	if v < 0 {
		return fmt.Sprintf("(- %d)", -v)
	}
	return fmt.Sprintf("%d", v)
}
