package vc

import (
	"fmt"
	"go/types"
	"strings"

	"golang.org/x/tools/go/ssa"
)

const wholeArray = "!array"

func elemOfPtr(t types.Type) types.Type {
	return t.Underlying().(*types.Pointer).Elem()
}

// toDPtr views a pointer-typed value structurally.
func (x *Exec) toDPtr(v Val) *DPtr {
	if v.DP != nil {
		return v.DP
	}
	if v.S == "" || v.S == "!unmergeable" {
		unsup("pointer value without a term")
	}
	pt, ok := v.T.Underlying().(*types.Pointer)
	if !ok {
		unsup("toDPtr on non-pointer %s", v.T)
	}
	if at, ok := pt.Elem().Underlying().(*types.Array); ok {
		return &DPtr{HeapT: at.Elem(), Reg: "(p_reg " + v.S + ")", Idx: wholeArray}
	}
	return &DPtr{HeapT: pt.Elem(), Reg: "(p_reg " + v.S + ")", Idx: "(p_idx " + v.S + ")"}
}

// ptrTerm converts a pointer value to an SMT Ptr term (needed when it is
// stored, merged or passed to a contracted callee).
func (x *Exec) ptrTerm(v Val) string {
	if v.DP == nil {
		return v.S
	}
	d := v.DP
	if d.Reg == "!global" {
		unsup("address of global escapes")
	}
	if d.Cell != nil {
		unsup("address of local cell escapes (%s)", d.Cell.a.Comment)
	}
	if len(d.Path) > 0 {
		if x.contract != nil && x.contract.AbstractPtrs {
			// abstraction: the escaping interior pointer becomes an unknown non-nil
			// pointer (loads through it yield unconstrained values)
			p := x.S.Const("absptr", "Ptr")
			x.S.Axiom("absptr_"+p, []string{p}, "(and (> (p_reg "+p+") 0) (>= (p_idx "+p+") 0))")
			x.note("interior pointer escapes: abstracted to an unknown non-nil pointer (directive abstractptrs)")
			return p
		}
		unsup("pointer into aggregate escapes")
	}
	if d.Idx == wholeArray {
		return "(mk_ptr " + d.Reg + " 0)"
	}
	return "(mk_ptr " + d.Reg + " " + d.Idx + ")"
}

// term returns the SMT term of a value (converting derived pointers).
func (x *Exec) term(v Val) string {
	if v.DP != nil {
		return x.ptrTerm(v)
	}
	if v.Clo != nil || v.Fn != nil {
		return "0" // function values are opaque ints when stored
	}
	if v.Tup != nil {
		unsup("tuple used as term")
	}
	if v.S == "!unmergeable" {
		unsup("use of value with no single symbolic form")
	}
	return v.S
}

func (x *Exec) pathType(d *DPtr, root types.Type) types.Type {
	t := root
	for _, s := range d.Path {
		if s.isIdx {
			t = t.Underlying().(*types.Array).Elem()
		} else {
			t = t.Underlying().(*types.Struct).Field(s.field).Type()
		}
	}
	return t
}

func (x *Exec) rootType(d *DPtr) types.Type {
	if d.Cell != nil {
		return elemOfPtr(d.Cell.a.Type())
	}
	if d.Idx == wholeArray {
		return nil // array of HeapT; handled specially
	}
	return d.HeapT
}

func (x *Exec) project(v string, t types.Type, path []step) (string, types.Type) {
	for _, s := range path {
		if s.isIdx {
			v = "(select " + v + " " + s.idx + ")"
			t = t.Underlying().(*types.Array).Elem()
		} else {
			si := x.te.structOf(t)
			v = "(" + si.fields[s.field] + " " + v + ")"
			t = si.ftypes[s.field]
		}
	}
	return v, t
}

func (x *Exec) update(v string, t types.Type, path []step, nv string) string {
	if len(path) == 0 {
		return nv
	}
	s := path[0]
	if s.isIdx {
		et := t.Underlying().(*types.Array).Elem()
		inner := x.update("(select "+v+" "+s.idx+")", et, path[1:], nv)
		return "(store " + v + " " + s.idx + " " + inner + ")"
	}
	si := x.te.structOf(t)
	var parts []string
	for i, f := range si.fields {
		if i == s.field {
			parts = append(parts, x.update("("+f+" "+v+")", si.ftypes[i], path[1:], nv))
		} else {
			parts = append(parts, "("+f+" "+v+")")
		}
	}
	return "(" + si.ctor + " " + strings.Join(parts, " ") + ")"
}

// nilCheck emits the obligation that a heap-rooted pointer is non-nil.
func (x *Exec) nilCheck(st *State, fr *Frame, in ssa.Instruction, d *DPtr) {
	if d.Cell != nil || d.Reg == "!global" {
		return
	}
	if strings.HasPrefix(d.Reg, "nr") || d.Reg == x.entry.nr {
		return // freshly allocated region
	}
	if !st.nonNil[d.Reg] {
		x.oblige(st, fr, in, "nil", "(not (= "+d.Reg+" 0))", "nil pointer dereference")
		if st.nonNil == nil {
			st.nonNil = map[string]bool{}
		}
		st.nonNil[d.Reg] = true
	}
	if d.Unsafe && d.HeapT != nil {
		x.oblige(st, fr, in, "cast", fmt.Sprintf("(= (dyn %s) %d)", d.Reg, x.te.TypeID(d.HeapT)), "unsafe pointer cast to wrong dynamic type")
	}
}

func (x *Exec) load(st *State, fr *Frame, in ssa.Instruction, d *DPtr, t types.Type) Val {
	if d.Reg == "!global" {
		return Val{S: d.Idx, T: t}
	}
	if d.Cell != nil {
		cv, ok := st.cells[*d.Cell]
		if !ok {
			unsup("load of dead cell %s", d.Cell.a.Comment)
		}
		if len(d.Path) == 0 {
			return cv
		}
		if cv.DP != nil || cv.Clo != nil || cv.Fn != nil {
			unsup("path into go-side cell value")
		}
		s, pt := x.project(x.term(cv), elemOfPtr(d.Cell.a.Type()), d.Path)
		return Val{S: s, T: pt}
	}
	x.nilCheck(st, fr, in, d)
	if d.Idx == wholeArray {
		arr := "(select " + x.heap(st, d.HeapT) + " " + d.Reg + ")"
		if len(d.Path) != 0 {
			unsup("path below whole array")
		}
		return Val{S: arr, T: t}
	}
	root := x.heapLoad(st, d.HeapT, d.Reg, d.Idx)
	s, pt := x.project(root, d.HeapT, d.Path)
	v := Val{S: s, T: pt}
	if !types.Identical(pt.Underlying(), t.Underlying()) {
		v.T = t
	}
	return v
}

func (x *Exec) store(st *State, fr *Frame, in ssa.Instruction, d *DPtr, v Val) {
	if d.Reg == "!global" {
		unsup("store to global")
	}
	if d.Cell != nil {
		if len(d.Path) == 0 {
			st.cells[*d.Cell] = v
			return
		}
		cv, ok := st.cells[*d.Cell]
		if !ok {
			unsup("store to dead cell")
		}
		rt := elemOfPtr(d.Cell.a.Type())
		nv := x.update(x.term(cv), rt, d.Path, x.term(v))
		st.cells[*d.Cell] = Val{S: x.S.Define("c", x.te.Sort(rt), nv), T: rt}
		return
	}
	x.nilCheck(st, fr, in, d)
	if d.Idx == wholeArray {
		h := x.heap(st, d.HeapT)
		x.setHeap(st, d.HeapT, "(store "+h+" "+d.Reg+" "+x.term(v)+")")
		return
	}
	if len(d.Path) == 0 {
		x.heapStore(st, d.HeapT, d.Reg, d.Idx, x.term(v))
		return
	}
	root := x.heapLoad(st, d.HeapT, d.Reg, d.Idx)
	nv := x.update(root, d.HeapT, d.Path, x.term(v))
	x.heapStore(st, d.HeapT, d.Reg, d.Idx, nv)
}

// isLocalCell reports whether an Alloc can be kept as an executor-side cell:
// its address is only loaded, stored through, projected, or captured.
func isLocalCell(a *ssa.Alloc) bool {
	var ok func(v ssa.Value, depth int) bool
	ok = func(v ssa.Value, depth int) bool {
		refs := v.Referrers()
		if refs == nil {
			return false
		}
		for _, r := range *refs {
			switch r := r.(type) {
			case *ssa.UnOp:
				// load
			case *ssa.Store:
				if r.Val == v {
					return false
				}
			case *ssa.FieldAddr:
				if !ok(r, depth+1) {
					return false
				}
			case *ssa.IndexAddr:
				if r.X != v || !ok(r, depth+1) {
					return false
				}
			case *ssa.MakeClosure:
				if depth > 0 {
					return false
				}
			case *ssa.DebugRef:
			default:
				return false
			}
		}
		return true
	}
	return ok(a, 0)
}
