package vc

import (
	"fmt"
	"go/types"
	"strings"

	"golang.org/x/tools/go/ssa"
)

func fullName(fn *ssa.Function) string {
	if fn.Pkg == nil {
		if fn.Signature.Recv() != nil {
			return fn.String()
		}
		return fn.Name()
	}
	if fn.Signature.Recv() != nil {
		return fn.String()
	}
	return fn.Pkg.Pkg.Path() + "." + fn.Name()
}

func (x *Exec) fp() bool { return x.te.FMode == FloatIEEE }

// uf declares (once) and applies an uninterpreted function over floats.
func (x *Exec) ufFloat(name string, args ...string) string {
	fs := x.te.FloatSort()
	var sorts []string
	for range args {
		sorts = append(sorts, fs)
	}
	x.S.DeclareFun(name, sorts, fs)
	if x.te.FMode == FloatReal {
		x.trigAxioms(name)
	}
	return App(name, args...)
}

const piReal = "(/ 884279719003555.0 281474976710656.0)" // math.Pi as the exact rational value of the float64 constant

// trigAxioms: assumed facts about the mathematical functions (A-math-trig),
// stated over the reals and included only when the symbol occurs.
func (x *Exec) trigAxioms(name string) {
	half := "(/ " + piReal + " 2.0)"
	decl := func(n string, k int) {
		var so []string
		for i := 0; i < k; i++ {
			so = append(so, "Real")
		}
		x.S.DeclareFun(n, so, "Real")
	}
	switch name {
	case "fsin", "fcos":
		decl("fsin", 1)
		decl("fcos", 1)
		x.S.Axiom("trig_pyth", []string{"fsin", "fcos"}, "(forall ((v Real)) (! (and (= (+ (* (fsin v) (fsin v)) (* (fcos v) (fcos v))) 1.0) (<= (- 1.0) (fsin v)) (<= (fsin v) 1.0) (<= (- 1.0) (fcos v)) (<= (fcos v) 1.0)) :pattern ((fsin v)) :pattern ((fcos v))))")
		x.S.Axiom("trig_cospos", []string{"fcos"}, "(forall ((v Real)) (! (=> (and (< (- "+half+") v) (< v "+half+")) (> (fcos v) 0.0)) :pattern ((fcos v))))")
		x.S.Axiom("trig_zero", []string{"fsin", "fcos"}, "(and (= (fsin 0.0) 0.0) (= (fcos 0.0) 1.0))")
	case "fasin":
		decl("fsin", 1)
		decl("fasin", 1)
		x.S.Axiom("trig_asin", []string{"fasin"}, "(forall ((v Real)) (! (=> (and (<= (- "+half+") v) (<= v "+half+")) (= (fasin (fsin v)) v)) :pattern ((fasin (fsin v)))))")
		x.S.Axiom("trig_asin0", []string{"fasin"}, "(= (fasin 0.0) 0.0)")
	case "ftan", "fatan":
		decl("ftan", 1)
		decl("fatan", 1)
		x.S.Axiom("trig_atan", []string{"fatan", "ftan"}, "(forall ((v Real)) (! (=> (and (< (- "+half+") v) (< v "+half+")) (= (fatan (ftan v)) v)) :pattern ((fatan (ftan v)))))")
		x.S.Axiom("trig_tanpos", []string{"ftan"}, "(forall ((v Real)) (! (=> (and (< 0.0 v) (< v "+half+")) (> (ftan v) 0.0)) :pattern ((ftan v))))")
	case "fexp", "flog":
		decl("fexp", 1)
		decl("flog", 1)
		x.S.Axiom("explog", []string{"fexp", "flog"}, "(forall ((v Real)) (! (and (= (flog (fexp v)) v) (> (fexp v) 0.0)) :pattern ((fexp v))))")
		x.S.Axiom("logexp", []string{"fexp", "flog"}, "(forall ((v Real)) (! (=> (> v 0.0) (= (fexp (flog v)) v)) :pattern ((flog v))))")
	case "fatan2":
		decl("fatan2", 2)
	}
}

// model intercepts calls to functions with an explicit (assumed) semantics.
func (x *Exec) model(st *State, fr *Frame, in *ssa.Call, callee *ssa.Function, args []Val) (Val, bool) {
	name := fullName(callee)
	rt := in.Type()
	fs := x.te.FloatSort()
	ft := types.Typ[types.Float64]
	a := func(i int) string { return x.term(args[i]) }
	ret := func(s string) (Val, bool) { return Val{S: s, T: rt}, true }
	used := func() { x.modelsUsed[name] = true }
	if strings.HasPrefix(name, "math.") {
		used()
		switch name {
		case "math.IsNaN":
			if x.fp() {
				return ret("(fp.isNaN " + a(0) + ")")
			}
			return ret("false")
		case "math.IsInf":
			if !x.fp() {
				return ret("false")
			}
			f, s := a(0), a(1)
			return ret(And("(fp.isInfinite "+f+")", Or(And("(>= "+s+" 0)", "(fp.isPositive "+f+")"), And("(<= "+s+" 0)", "(fp.isNegative "+f+")"))))
		case "math.NaN":
			if x.fp() {
				return ret("(_ NaN 11 53)")
			}
			x.note("math.NaN() in real mode is an unconstrained real")
			return x.fresh(st, ft, "nan"), true
		case "math.Inf":
			if x.fp() {
				return ret("(ite (>= " + a(0) + " 0) (_ +oo 11 53) (_ -oo 11 53))")
			}
			x.note("math.Inf() in real mode is an unconstrained real")
			return x.fresh(st, ft, "inf"), true
		case "math.Abs":
			if x.fp() {
				return ret("(fp.abs " + a(0) + ")")
			}
			return ret("(ite (>= " + a(0) + " 0.0) " + a(0) + " (- " + a(0) + "))")
		case "math.Sqrt":
			x.usedFloatArith = true
		x.faCount++
			if x.fp() {
				return ret("(fp.sqrt RNE " + a(0) + ")")
			}
			r := x.ufFloat("fsqrt", a(0))
			x.S.Axiom("fsqrt", []string{"fsqrt"}, "(forall ((v Real)) (! (=> (>= v 0.0) (and (>= (fsqrt v) 0.0) (= (* (fsqrt v) (fsqrt v)) v))) :pattern ((fsqrt v))))")
			return ret(r)
		case "math.Floor", "math.Ceil", "math.Trunc", "math.Round", "math.RoundToEven":
			x.usedFloatArith = true
		x.faCount++
			if x.fp() {
				rm := map[string]string{"math.Floor": "RTN", "math.Ceil": "RTP", "math.Trunc": "RTZ", "math.Round": "RNA", "math.RoundToEven": "RNE"}[name]
				return ret("(fp.roundToIntegral " + rm + " " + a(0) + ")")
			}
			v := a(0)
			switch name {
			case "math.Floor":
				return ret("(to_real (to_int " + v + "))")
			case "math.Ceil":
				return ret("(- (to_real (to_int (- " + v + "))))")
			case "math.Trunc":
				return ret("(ite (>= " + v + " 0.0) (to_real (to_int " + v + ")) (- (to_real (to_int (- " + v + ")))))")
			case "math.Round":
				return ret("(ite (>= " + v + " 0.0) (to_real (to_int (+ " + v + " 0.5))) (- (to_real (to_int (+ (- " + v + ") 0.5)))))")
			}
			return ret(x.ufFloat("froundeven", v))
		case "math.Max", "math.Min":
			p, q := a(0), a(1)
			if !x.fp() {
				if name == "math.Max" {
					return ret("(ite (>= " + p + " " + q + ") " + p + " " + q + ")")
				}
				return ret("(ite (<= " + p + " " + q + ") " + p + " " + q + ")")
			}
			nan := Or("(fp.isNaN "+p+")", "(fp.isNaN "+q+")")
			if name == "math.Max" {
				return ret("(ite " + nan + " (_ NaN 11 53) (ite (fp.gt " + p + " " + q + ") " + p + " (ite (fp.gt " + q + " " + p + ") " + q + " (ite (fp.isNegative " + p + ") " + q + " " + p + "))))")
			}
			return ret("(ite " + nan + " (_ NaN 11 53) (ite (fp.lt " + p + " " + q + ") " + p + " (ite (fp.lt " + q + " " + p + ") " + q + " (ite (fp.isNegative " + p + ") " + p + " " + q + "))))")
		case "math.Signbit":
			if x.fp() {
				return ret("(fp.isNegative " + a(0) + ")")
			}
			return ret("(< " + a(0) + " 0.0)")
		case "math.Copysign":
			if x.fp() {
				return ret("(ite (= (fp.isNegative " + a(0) + ") (fp.isNegative " + a(1) + ")) " + a(0) + " (fp.neg " + a(0) + "))")
			}
		case "math.Float64bits":
			x.S.DeclareFun("f64bits", []string{fs}, "Int")
			x.S.DeclareFun("f64frombits", []string{"Int"}, fs)
			r := "(f64bits " + a(0) + ")"
			x.assume(st, And("(<= 0 "+r+")", "(< "+r+" 18446744073709551616)", x.sameFloat("(f64frombits "+r+")", a(0))))
			return ret(r)
		case "math.Float64frombits":
			x.S.DeclareFun("f64bits", []string{fs}, "Int")
			x.S.DeclareFun("f64frombits", []string{"Int"}, fs)
			r := "(f64frombits " + a(0) + ")"
			if x.fp() {
				x.assume(st, Imp(Not("(fp.isNaN "+r+")"), "(= (f64bits "+r+") "+a(0)+")"))
			} else {
				x.assume(st, "(= (f64bits "+r+") "+a(0)+")")
			}
			return ret(r)
		case "math.Pow10":
			x.S.DeclareFun("pow10", []string{"Int"}, fs)
			r := "(pow10 " + a(0) + ")"
			n := a(0)
			if x.fp() {
				// assumed contract of math.Pow10 (Go 1.23): 0 below 1e-323, +Inf above 1e308, otherwise positive finite; >= 1 for n >= 0
				x.assume(st, And(Not("(fp.isNaN "+r+")"), "(fp.geq "+r+" (_ +zero 11 53))",
					Imp("(> "+n+" 308)", "(= "+r+" (_ +oo 11 53))"),
					Imp("(< "+n+" (- 323))", "(= "+r+" (_ +zero 11 53))"),
					Imp("(and (>= "+n+" (- 323)) (<= "+n+" 308))", And(Not("(fp.isInfinite "+r+")"), "(fp.gt "+r+" (_ +zero 11 53))")),
					Imp("(>= "+n+" 0)", "(fp.geq "+r+" "+floatLit(x.te, 1)+")"),
					Imp("(>= "+n+" 1)", "(fp.geq "+r+" "+floatLit(x.te, 10)+")"),
					Imp("(<= "+n+" 0)", "(fp.leq "+r+" "+floatLit(x.te, 1)+")")))
			} else {
				x.assume(st, And("(> "+r+" 0.0)", Imp("(>= "+n+" 0)", "(>= "+r+" 1.0)"), Imp("(>= "+n+" 1)", "(>= "+r+" 10.0)"), Imp("(<= "+n+" 0)", "(<= "+r+" 1.0)")))
			}
			return ret(r)
		case "math.Sin", "math.Cos", "math.Tan", "math.Asin", "math.Acos", "math.Atan", "math.Exp", "math.Log", "math.Sinh", "math.Cosh", "math.Tanh", "math.Log10", "math.Log2", "math.Cbrt":
			x.usedFloatArith = true
		x.faCount++
			return ret(x.ufFloat("f"+strings.ToLower(strings.TrimPrefix(name, "math.")), a(0)))
		case "math.Atan2", "math.Pow", "math.Hypot", "math.Mod":
			x.usedFloatArith = true
		x.faCount++
			return ret(x.ufFloat("f"+strings.ToLower(strings.TrimPrefix(name, "math.")), a(0), a(1)))
		case "math.Sincos":
			x.usedFloatArith = true
		x.faCount++
			return Val{Tup: []Val{{S: x.ufFloat("fsin", a(0)), T: ft}, {S: x.ufFloat("fcos", a(0)), T: ft}}, T: rt}, true
		}
		return Val{}, false
	}
	switch {
	case strings.HasPrefix(name, "(encoding/binary.bigEndian)."), strings.HasPrefix(name, "(encoding/binary.littleEndian)."):
		used()
		big := strings.Contains(name, "bigEndian")
		m := callee.Name()
		bt := types.Typ[types.Uint8]
		width := map[string]int{"Uint16": 2, "Uint32": 4, "Uint64": 8, "PutUint16": 2, "PutUint32": 4, "PutUint64": 8, "AppendUint16": 2, "AppendUint32": 4, "AppendUint64": 8}[m]
		if width == 0 {
			return Val{}, false
		}
		switch {
		case strings.HasPrefix(m, "Uint"):
			b := a(1)
			x.oblige(st, fr, in, "idx", fmt.Sprintf("(<= %d (s_len %s))", width, b), "binary."+m+": slice too short")
			var terms []string
			for i := 0; i < width; i++ {
				sh := i
				if big {
					sh = width - 1 - i
				}
				terms = append(terms, fmt.Sprintf("(* %s %s)", x.heapLoad(st, bt, "(s_reg "+b+")", fmt.Sprintf("(+ (s_off %s) %d)", b, i)), pow2(8*sh).String()))
			}
			r := Val{S: x.S.Define("u", "Int", "(+ "+strings.Join(terms, " ")+")"), T: rt}
			x.wfAssume(st, r)
			return r, true
		case strings.HasPrefix(m, "PutUint"):
			b, v := a(1), a(2)
			x.oblige(st, fr, in, "idx", fmt.Sprintf("(<= %d (s_len %s))", width, b), "binary."+m+": slice too short")
			// the bytes are the unique base-256 digits of v: fresh digits d_i in
			// 0..255 with v == sum d_i*256^sh (linear, unlike div/mod chains)
			var terms, rng []string
			for i := 0; i < width; i++ {
				sh := i
				if big {
					sh = width - 1 - i
				}
				d := x.S.Const("dg", "Int")
				rng = append(rng, "(<= 0 "+d+")", "(<= "+d+" 255)")
				terms = append(terms, fmt.Sprintf("(* %s %s)", d, pow2(8*sh).String()))
				x.heapStore(st, bt, "(s_reg "+b+")", fmt.Sprintf("(+ (s_off %s) %d)", b, i), d)
			}
			x.assume(st, And(append(rng, "(= "+v+" (+ "+strings.Join(terms, " ")+"))")...))
			return Val{T: rt}, true
		}
		return Val{}, false
	case name == "fmt.Sprintf", name == "fmt.Sprint", name == "fmt.Sprintln", name == "strconv.Itoa", name == "strconv.FormatFloat", name == "strconv.FormatInt", name == "strconv.Quote",
		name == "strings.ToUpper", name == "strings.ToLower", name == "strings.TrimSpace", name == "strings.Join", name == "strings.Repeat":
		used()
		r := x.newRegion(st, nil)
		l := x.S.Const("sl", "Int")
		x.assume(st, "(and (<= 0 "+l+") (<= "+l+" "+maxSliceElems+"))")
		return ret("(mk_slice " + r + " 0 " + l + " " + l + ")")
	case name == "fmt.Errorf", name == "errors.New":
		used()
		r := x.fresh(st, rt, "err")
		x.assume(st, "(> "+r.S+" 0)")
		return r, true
	case name == "errors.Is":
		used()
		x.S.DeclareFun("errors_is", []string{"Int", "Int"}, "Bool")
		x.S.Axiom("errors_is", []string{"errors_is"}, "(forall ((e Int) (t Int)) (! (and (=> (and (= e t)) (errors_is e t)) (=> (and (= e 0) (not (= t 0))) (not (errors_is e t)))) :pattern ((errors_is e t))))")
		return ret("(errors_is " + a(0) + " " + a(1) + ")")
	case name == "errors.Unwrap":
		used()
		return x.fresh(st, rt, "unw"), true
	case name == "strings.EqualFold", name == "strings.HasPrefix", name == "strings.HasSuffix", name == "strings.Contains", name == "unicode.IsSpace", name == "unicode.IsDigit", name == "unicode.IsLetter":
		used()
		return x.fresh(st, rt, "b"), true
	case name == "strconv.ParseFloat", name == "strconv.ParseInt", name == "strconv.Atoi", name == "strconv.ParseUint":
		used()
		return x.fresh(st, rt, "pf"), true
	case name == "strconv.AppendFloat" && len(args) == 5:
		used()
		// appends the text strconv produces for (f, fmt, prec, bitSize): 1..400
		// bytes that are an uninterpreted function of those arguments
		fs := x.te.FloatSort()
		x.S.DeclareFun("uf_fmtlen", []string{fs, "Int", "Int", "Int"}, "Int")
		x.S.DeclareFun("uf_fmtbyte", []string{fs, "Int", "Int", "Int", "Int"}, "Int")
		key := a(1) + " " + a(2) + " " + a(3) + " " + a(4)
		return x.appendContent(st, args[0], rt, 1, 400, "(uf_fmtlen "+key+")", func(i string) string { return "(uf_fmtbyte " + key + " " + i + ")" }), true
	case name == "strconv.AppendFloat", name == "strconv.AppendInt", name == "strconv.AppendQuote":
		used()
		// appends at least one byte of unknown content
		return x.appendUnknown(st, args[0], rt, 1, 400), true
	case name == "sort.SearchFloat64s":
		used()
		// binary search keeps f(i-1) false and f(j) true for ANY predicate f, so the
		// result r satisfies (r == n or a[r] >= x) and (r == 0 or not a[r-1] >= x),
		// sorted input or not, NaN or not
		r := x.fresh(st, rt, "sr")
		x.assume(st, And("(<= 0 "+r.S+")", "(<= "+r.S+" (s_len "+a(0)+"))"))
		ft := types.Typ[types.Float64]
		at := func(i string) string {
			return x.heapLoad(st, ft, "(s_reg "+a(0)+")", "(+ (s_off "+a(0)+") "+i+")")
		}
		ge := func(u, v string) string {
			if x.fp() {
				return "(fp.geq " + u + " " + v + ")"
			}
			return "(>= " + u + " " + v + ")"
		}
		x.assume(st, Imp("(< "+r.S+" (s_len "+a(0)+"))", ge(at(r.S), a(1))))
		x.assume(st, Imp("(> "+r.S+" 0)", Not(ge(at("(- "+r.S+" 1)"), a(1)))))
		return r, true
	case name == "sort.Slice", name == "sort.SliceStable", name == "sort.Float64s", name == "sort.Ints", name == "sort.Strings":
		used()
		x.note(name + ": assumed to permute its argument in place and call less without other effects (A-std)")
		x.havocClosureCaptures(st, args)
		sv := args[0]
		if isInterface(sv.T) {
			// sort.Slice takes interface{}: recover the slice from the MakeInterface
			if mi, ok := in.Call.Args[0].(*ssa.MakeInterface); ok {
				sv = x.value(fr, st, mi.X)
			} else {
				return Val{}, false
			}
		}
		reg, et := x.regionOf(Val{S: x.term(sv), T: sv.T})
		h := x.heap(st, et)
		fa := x.S.Const("sorted", "(Array Int "+x.te.Sort(et)+")")
		x.setHeap(st, et, "(store "+h+" "+reg+" "+fa+")")
		return Val{T: rt}, true
	case name == "encoding/binary.Uvarint", name == "encoding/binary.Varint":
		used()
		// exact LEB128 decoding of at most 10 bytes, as an ite chain (no quantifiers):
		// (value, n): n == 0 buffer too small, n < 0 overflow (value 0 in both cases)
		b := a(0)
		bt := types.Typ[types.Uint8]
		byteAt := func(k int) string {
			return x.S.Define("vb", "Int", x.heapLoad(st, bt, "(s_reg "+b+")", fmt.Sprintf("(+ (s_off %s) %d)", b, k)))
		}
		// build from the last byte backwards: res_k(acc) for position k
		var build func(k int, acc string) (val, n string)
		build = func(k int, acc string) (string, string) {
			if k == 10 {
				// an eleventh byte after ten continuation bytes: overflow; none: buffer exhausted
				return "0", Ite("(< 10 (s_len "+b+"))", "(- 11)", "0")
			}
			bk := byteAt(k)
			p := pow2(7 * k).String()
			small := "(< " + bk + " 128)"
			doneVal := "(+ " + acc + " (* " + bk + " " + p + "))"
			doneN := fmt.Sprintf("%d", k+1)
			if k == 9 {
				// tenth byte may only be 0 or 1
				ovfl := "(> " + bk + " 1)"
				doneVal = Ite(ovfl, "0", doneVal)
				doneN = Ite(ovfl, "(- 10)", doneN)
			}
			nacc := x.S.Define("vacc", "Int", "(+ "+acc+" (* (- "+bk+" 128) "+p+"))")
			rv, rn := build(k+1, nacc)
			have := fmt.Sprintf("(< %d (s_len %s))", k, b)
			return Ite(have, Ite(small, doneVal, rv), "0"), Ite(have, Ite(small, doneN, rn), "0")
		}
		uv, un := build(0, "0")
		uvd := x.S.Define("uv", "Int", uv)
		und := x.S.Define("un", "Int", un)
		tup := rt.(*types.Tuple)
		if name == "encoding/binary.Uvarint" {
			return Val{Tup: []Val{{S: uvd, T: tup.At(0).Type()}, {S: und, T: tup.At(1).Type()}}, T: rt}, true
		}
		// zig-zag: even -> ux/2, odd -> -(ux+1)/2
		sv := x.S.Define("sv", "Int", Ite("(= (mod "+uvd+" 2) 0)", "(div "+uvd+" 2)", "(- (div (+ "+uvd+" 1) 2))"))
		return Val{Tup: []Val{{S: sv, T: tup.At(0).Type()}, {S: und, T: tup.At(1).Type()}}, T: rt}, true
	case name == "encoding/binary.PutUvarint", name == "encoding/binary.PutVarint":
		used()
		// exact LEB128 encoding: base-128 digits d_0..d_9 of the (zig-zagged) value,
		// n = number of significant digits (at least 1), continuation bit on all but the last
		b := a(0)
		x.oblige(st, fr, in, "idx", "(<= 10 (s_len "+b+"))", name+": buffer may be too small")
		v := a(1)
		if name == "encoding/binary.PutVarint" {
			v = x.S.Define("zz", "Int", Ite("(>= "+v+" 0)", "(* 2 "+v+")", "(- (* (- 2) "+v+") 1)"))
		}
		var dg, terms, rng []string
		for k := 0; k < 10; k++ {
			d := x.S.Const("vd", "Int")
			dg = append(dg, d)
			rng = append(rng, "(<= 0 "+d+")", "(<= "+d+" 127)")
			terms = append(terms, "(* "+d+" "+pow2(7*k).String()+")")
		}
		x.assume(st, And(append(rng, "(= "+v+" (+ "+strings.Join(terms, " ")+"))")...))
		// n = number of significant base-128 digits (1 when the value is 0)
		n := x.S.Const("pvn", "Int")
		var nc []string
		nc = append(nc, "(<= 1 "+n+")", "(<= "+n+" 10)")
		for k := 1; k <= 10; k++ {
			lo := pow2(7 * (k - 1)).String()
			hi := pow2(7 * k).String()
			if k == 1 {
				nc = append(nc, Imp("(< "+v+" "+hi+")", "(= "+n+" 1)"))
			} else {
				nc = append(nc, Imp(And("(>= "+v+" "+lo+")", "(< "+v+" "+hi+")"), fmt.Sprintf("(= %s %d)", n, k)))
			}
		}
		x.assume(st, And(nc...))
		bt := types.Typ[types.Uint8]
		for k := 0; k < 10; k++ {
			// byte k is written only when k < n
			old := x.heapLoad(st, bt, "(s_reg "+b+")", fmt.Sprintf("(+ (s_off %s) %d)", b, k))
			oldD := x.S.Define("pvo", "Int", old)
			val := Ite(fmt.Sprintf("(< %d %s)", k, n), Ite(fmt.Sprintf("(< %d (- %s 1))", k, n), "(+ "+dg[k]+" 128)", dg[k]), oldD)
			x.heapStore(st, bt, "(s_reg "+b+")", fmt.Sprintf("(+ (s_off %s) %d)", b, k), val)
		}
		return Val{S: n, T: rt}, true
	case name == "encoding/binary.AppendUvarint", name == "encoding/binary.AppendVarint":
		used()
		return x.appendUnknown(st, args[0], rt, 1, 10), true
	case name == "unsafe.Slice", name == "unsafe.SliceData", name == "unsafe.String":
		unsup("unsafe.%s must sit behind a trusted contract", callee.Name())
	}
	return Val{}, false
}

func (x *Exec) varintAxioms(st *State, name, b string, r Val) {}

func (x *Exec) sameFloat(a, b string) string {
	return Eq(a, b)
}

// appendUnknown models appending between lo and hi bytes of unknown content.
func (x *Exec) appendUnknown(st *State, dst Val, rt types.Type, lo, hi int) Val {
	return x.appendContent(st, dst, rt, lo, hi, "", nil)
}

// appendContent: as appendUnknown, with the number of bytes and the bytes
// themselves given by terms (when lenT / byteAt are set).
func (x *Exec) appendContent(st *State, dst Val, rt types.Type, lo, hi int, lenT string, byteAt func(i string) string) Val {
	s := x.term(dst)
	bt := types.Typ[types.Uint8]
	k := x.S.Const("ak", "Int")
	x.assume(st, fmt.Sprintf("(and (<= %d %s) (<= %s %d))", lo, k, k, hi))
	if lenT != "" {
		x.assume(st, "(= "+k+" "+lenT+")")
	}
	nl := x.S.Define("al", "Int", "(+ (s_len "+s+") "+k+")")
	fits := x.S.Define("fits", "Bool", "(<= "+nl+" (s_cap "+s+"))")
	nreg := x.newRegion(st, nil)
	ncap := x.S.Const("acap", "Int")
	x.assume(st, And("(>= "+ncap+" "+nl+")", "(<= "+ncap+" "+maxSliceElems+")"))
	h := x.heap(st, bt)
	dreg := x.S.Define("dreg", "Int", Ite(fits, "(s_reg "+s+")", nreg))
	doff := x.S.Define("doff", "Int", Ite(fits, "(s_off "+s+")", "0"))
	inner := x.S.Const("app", "(Array Int Int)")
	q := x.S.Fresh("qi")
	// old prefix preserved; everything outside [doff+len, doff+nl) keeps its value; bytes in range
	body := fmt.Sprintf("(and (=> (and (<= %s %s) (< %s (+ %s (s_len %s)))) (= (select %s %s) (select (select %s (s_reg %s)) (+ (s_off %s) (- %s %s))))) (=> (or (< %s %s) (>= %s (+ %s %s))) (= (select %s %s) (select (select %s %s) %s))) (<= 0 (select %s %s)) (<= (select %s %s) 255))",
		doff, q, q, doff, s, inner, q, h, s, s, q, doff,
		q, doff, q, doff, nl, inner, q, h, dreg, q,
		inner, q, inner, q)
	x.assume(st, fmt.Sprintf("(forall ((%s Int)) (! %s :pattern ((select %s %s))))", q, body, inner, q))
	if byteAt != nil {
		q2 := x.S.Fresh("qc")
		x.assume(st, fmt.Sprintf("(forall ((%s Int)) (! (=> (and (<= (+ %s (s_len %s)) %s) (< %s (+ %s %s))) (= (select %s %s) %s)) :pattern ((select %s %s))))",
			q2, doff, s, q2, q2, doff, nl, inner, q2, byteAt("(- "+q2+" (+ "+doff+" (s_len "+s+")))"), inner, q2))
	}
	x.setHeap(st, bt, "(store "+h+" "+dreg+" "+inner+")")
	rc := x.S.Define("rcap", "Int", Ite(fits, "(s_cap "+s+")", ncap))
	return Val{S: x.S.Define("s", "Slice", "(mk_slice "+dreg+" "+doff+" "+nl+" "+rc+")"), T: rt}
}
