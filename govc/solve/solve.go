// Package solve discharges SMT-LIB scripts by racing the installed solvers.
package solve

import (
	"bytes"
	"context"
	"fmt"
	"os"
	"os/exec"
	"path/filepath"
	"strings"
	"sync"
	"time"
)

type Status string

const (
	Unsat   Status = "unsat"
	Sat     Status = "sat"
	Unknown Status = "unknown"
)

type Answer struct {
	Status  Status
	Solver  string
	Seconds float64
	Model   string
	Detail  string // per-solver outcome summary
}

type Solver struct {
	Name string
	Args func(file string, timeoutS int, seed int) []string
}

var Solvers = []Solver{
	{"z3-new", func(f string, t int, seed int) []string {
		a := []string{"z3-new", "-smt2", fmt.Sprintf("-T:%d", t)}
		if seed != 0 {
			a = append(a, fmt.Sprintf("smt.random_seed=%d", seed), fmt.Sprintf("sat.random_seed=%d", seed))
		}
		return append(a, f)
	}},
	{"z3", func(f string, t int, seed int) []string {
		a := []string{"z3", "-smt2", fmt.Sprintf("-T:%d", t)}
		if seed != 0 {
			a = append(a, fmt.Sprintf("smt.random_seed=%d", seed), fmt.Sprintf("sat.random_seed=%d", seed))
		}
		return append(a, f)
	}},
	{"cvc5", func(f string, t int, seed int) []string {
		a := []string{"cvc5", "--lang=smt2", fmt.Sprintf("--tlimit=%d", t*1000)}
		if seed != 0 {
			a = append(a, fmt.Sprintf("--seed=%d", seed))
		}
		return append(a, f)
	}},
}

const header = "(set-option :produce-models true)\n(set-logic ALL)\n"

func runOne(ctx context.Context, s Solver, file string, timeoutS int, seed int) (Status, string, float64) {
	t0 := time.Now()
	args := s.Args(file, timeoutS, seed)
	cctx, cancel := context.WithTimeout(ctx, time.Duration(timeoutS+2)*time.Second)
	defer cancel()
	cmd := exec.CommandContext(cctx, args[0], args[1:]...)
	var out bytes.Buffer
	cmd.Stdout = &out
	cmd.Stderr = &out
	_ = cmd.Run()
	el := time.Since(t0).Seconds()
	first := ""
	for _, ln := range strings.Split(out.String(), "\n") {
		ln = strings.TrimSpace(ln)
		if ln == "" || ln == "unsupported" || ln == "success" {
			continue
		}
		first = ln
		break
	}
	switch first {
	case "unsat":
		return Unsat, out.String(), el
	case "sat":
		return Sat, out.String(), el
	}
	if len(first) > 200 {
		first = first[:200]
	}
	return Unknown, first, el
}

// Check runs the script. Fast path: z3-new alone for a short time; then race.
func Check(dir, name, script string, timeoutS int, wantModel bool, seed int) Answer {
	file := filepath.Join(dir, sanitize(name)+".smt2")
	body := header
	seed = seed % 1000000
	body += script
	if err := os.WriteFile(file, []byte(body), 0o644); err != nil {
		return Answer{Status: Unknown, Detail: err.Error()}
	}
	t0 := time.Now()
	quickT := 3
	if timeoutS < quickT {
		quickT = timeoutS
	}
	hardFP := strings.Contains(script, "fp.mul") || strings.Contains(script, "fp.div") || strings.Contains(script, "fp.sqrt")
	var st Status = Unknown
	var out string
	var el float64
	detail := ""
	if !hardFP {
		st, out, el = runOne(context.Background(), Solvers[0], file, quickT, seed)
		detail = fmt.Sprintf("%s:%s(%.2fs)", Solvers[0].Name, st, el)
	}
	ans := Answer{Status: st, Solver: Solvers[0].Name}
	if st == Unknown && (timeoutS > quickT || hardFP) {
		ctx, cancel := context.WithCancel(context.Background())
		type r struct {
			s   Solver
			st  Status
			out string
			el  float64
		}
		ch := make(chan r, len(Solvers))
		var wg sync.WaitGroup
		for _, s := range Solvers {
			wg.Add(1)
			go func(s Solver) {
				defer wg.Done()
				st, out, el := runOne(ctx, s, file, timeoutS, seed)
				ch <- r{s, st, out, el}
			}(s)
		}
		go func() { wg.Wait(); close(ch) }()
		for res := range ch {
			detail += fmt.Sprintf(" %s:%s(%.2fs)", res.s.Name, res.st, res.el)
			if res.st == Unknown && strings.Contains(res.out, "error") {
				detail += "[" + res.out + "]"
			}
			if res.st != Unknown && ans.Status == Unknown {
				ans.Status = res.st
				ans.Solver = res.s.Name
				out = res.out
				cancel()
			}
		}
		cancel()
	}
	ans.Seconds = time.Since(t0).Seconds()
	ans.Detail = detail
	if ans.Status == Sat && wantModel {
		// re-run the winning solver with get-model
		mfile := filepath.Join(dir, sanitize(name)+".model.smt2")
		os.WriteFile(mfile, []byte(body+"(get-model)\n"), 0o644)
		for _, s := range Solvers {
			if s.Name == ans.Solver {
				_, mout, _ := runOne(context.Background(), s, mfile, timeoutS, seed)
				ans.Model = mout
			}
		}
		os.Remove(mfile)
	}
	_ = out
	if ans.Status != Sat {
		os.Remove(file)
	}
	return ans
}

func sanitize(s string) string {
	var sb strings.Builder
	for _, r := range s {
		if (r >= 'a' && r <= 'z') || (r >= 'A' && r <= 'Z') || (r >= '0' && r <= '9') || r == '-' || r == '_' || r == '.' {
			sb.WriteRune(r)
		} else {
			sb.WriteByte('_')
		}
	}
	t := sb.String()
	if len(t) > 150 {
		t = t[:150]
	}
	return t
}


// CheckWith runs the script on one named solver only (thorough tier: an
// independent second opinion on an obligation another solver discharged).
func CheckWith(dir, name, script, solver string, timeoutS int) (Status, float64) {
	file := filepath.Join(dir, sanitize(name)+".x.smt2")
	if err := os.WriteFile(file, []byte(header+script), 0o644); err != nil {
		return Unknown, 0
	}
	defer os.Remove(file)
	for _, s := range Solvers {
		if s.Name == solver {
			st, _, el := runOne(context.Background(), s, file, timeoutS, 0)
			return st, el
		}
	}
	return Unknown, 0
}
