#!/bin/bash
# Re-run every stored seeded change against the check expected to catch it (or the
# check of its own property) and refresh seeded/<name>/meta.json + check_output.txt.
cd /verif || exit 2
for d in seeded/*/; do
  s=$(basename $d)
  prop=$(grep "^$s " tools/selftest_expect.txt | awk '{print $2}'); [ -z "$prop" ] && prop=${s%%-*}
  git -C /repo apply /verif/$d/patch.diff || { echo "$s: patch does not apply"; continue; }
  (timeout 3000 ./check $prop quick > $d/check_output.txt 2>&1); rc=$?
  git -C /repo apply -R /verif/$d/patch.diff
  nviol=$(grep -c '^VIOLATION' $d/check_output.txt)
  first=$(grep -m3 '^VIOLATION' $d/check_output.txt | sed 's/.*obligation=//' | tr '\n' ';')
  und=$(grep -c '^UNDECIDED' $d/check_output.txt)
  python3 - <<PY
import json,os
p="$d/meta.json"; m=json.load(open(p)) if os.path.exists(p) else {"property":"${s%%-*}","mutant":"$s".split("-")[1],"note":"demo verified when stored"}
m["check_cmd"]="./check $prop quick"; m["check_exit_code"]=$rc; m["violations_reported"]=$nviol; m["first_violations"]="$first"; m["undecided_lines"]=$und
m.pop("caught_by_other_check",None)
json.dump(m,open(p,"w"),indent=1)
PY
  echo "$s ($prop) rc=$rc violations=$nviol undecided=$und $first"
done
