#!/bin/bash
# Final housekeeping: fresh evidence from sequential quick runs on the unchanged tree, manifest, cleanup.
cd /verif || exit 2
git -C /repo status --short | grep -q . && { echo "/repo has uncommitted changes"; git -C /repo status --short; exit 1; }
rm -rf replay/* 2>/dev/null
tools/selftest.sh pass | tee /tmp/finalize_pass.log
python3 tools/mkmanifest.py
python3 - <<'PY'
import json,glob
bad=0
for f in sorted(glob.glob('/verif/evidence/*.json')):
    d=json.load(open(f)); c=d['coverage']
    if c['obligations']!=c['discharged'] or d.get('violations'): print('PROBLEM',f,c['obligations'],c['discharged'],d.get('violations')); bad=1
print('evidence consistent' if not bad else 'evidence has problems')
PY
rm -rf /tmp/govc* /tmp/go-build* 2>/dev/null
git add -A; git commit -qm "final: fresh evidence, manifest" ; git log --oneline | head -1
