#!/bin/bash
# Must-fail / must-pass self test of the checks.
#  must-pass: every check in MANIFEST.json exits 0 on the unchanged tree.
#  must-fail: every stored seeded change listed as caught in tools/selftest_expect.txt makes its check exit 1
#             (the change is applied with `git -C /repo apply`, the check runs, the change is reverted).
# usage: tools/selftest.sh [pass|fail|all] [seed-name...]
cd /verif || exit 2
mode=${1:-all}; shift
rc=0
if [ "$mode" = pass ] || [ "$mode" = all ]; then
  for p in $(python3 -c "import json;print(' '.join(c['property_id'] for c in json.load(open('MANIFEST.json'))['checks']))"); do
    ./check $p quick > /tmp/selftest_$p.log 2>&1; e=$?
    echo "must-pass $p exit=$e $(tail -1 /tmp/selftest_$p.log)"
    [ $e -ne 0 ] && rc=1
  done
fi
if [ "$mode" = fail ] || [ "$mode" = all ]; then
  seeds="$@"; [ -z "$seeds" ] && seeds=$(grep -v '^#' tools/selftest_expect.txt | awk '{print $1}')
  for s in $seeds; do
    prop=$(grep "^$s " tools/selftest_expect.txt | awk '{print $2}'); [ -z "$prop" ] && prop=${s%%-*}
    git -C /repo apply /verif/seeded/$s/patch.diff || { echo "must-fail $s: patch does not apply"; rc=1; continue; }
    ./check $prop quick > /tmp/selftest_$s.log 2>&1; e=$?
    git -C /repo apply -R /verif/seeded/$s/patch.diff
    echo "must-fail $s ($prop) exit=$e $(grep -m1 '^VIOLATION' /tmp/selftest_$s.log | sed 's/.*obligation=//')"
    [ $e -ne 1 ] && rc=1
  done
fi
exit $rc
