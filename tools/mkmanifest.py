#!/usr/bin/env python3
"""Regenerates /verif/MANIFEST.json from the table below (run after adding a check)."""
import json, subprocess, os

def hook_commits():
    out = subprocess.run(['git','-C','/repo','log','--format=%H %s'],capture_output=True,text=True).stdout
    return [l.split()[0] for l in out.splitlines() if ' verif hooks' in l]

V = os.path.dirname(os.path.dirname(os.path.abspath(__file__)))
props = [json.loads(l) for l in open(os.path.join(V, 'properties.jsonl'))]
claims = json.load(open(os.path.join(V, 'tools', 'claims.json')))
checks, na = [], []
for p in props:
    c = claims.get(p['id'])
    if not c or c.get('not_applicable'):
        na.append({"property_id": p['id'], "reason": (c or {}).get('not_applicable', 'check not built yet (see DESIGN.md section 4 for the plan)')})
        continue
    checks.append({
        "property_id": p['id'],
        "quick_cmd": f"./check {p['id']} quick",
        "thorough_cmd": f"./check {p['id']} thorough",
        "evidence_file": f"/verif/evidence/{p['id']}.json",
        "replay_cmd_template": "cat {path}",
        "engine": "govc",
        "level_claimed": {"category": "proof", "text": c['text'], "design_ref": c.get('design_ref', 'DESIGN.md section 4')},
        "level_note": c['note'],
        "technique": c.get('technique', 'contract-based deductive verification: weakest-precondition style VCs generated from go/ssa of the real functions against //@ contracts, discharged by z3/cvc5'),
    })
m = {
    "version": 1,
    "setup_cmd": "cd /verif/govc && GOFLAGS=-mod=mod GOPROXY=off GOSUMDB=off GOTOOLCHAIN=local go build -o ../bin/govc ./cmd/govc",
    "hooks": {
        "guard": "verif",
        "enable": "go build -tags verif ./... (hooks: the comment-only contract files geom|rtree|carto/verif_contracts_*.go, and the harness/model files geom/verif_harness_twkb.go, geom/verif_harness_wkb.go, rtree/verif_harness_heap.go, all //go:build verif; govc loads /repo with -tags=verif)",
        "baseline_off_cmd": "cd /repo && go test -vet=off -count=1 ./...",
        "source_commits": hook_commits(),
        "add_only": True,
    },
    "engines": [{"name": "govc", "path": "/verif/govc", "serves_properties": [c['property_id'] for c in checks],
                 "kind_free_text": "VC generator for Go written for this task: go/packages + go/ssa (NaiveForm) symbolic execution with loop cutting, region heap, contracts in comment-only //go:build verif files; obligations in SMT-LIB 2 raced on z3 4.8.12, z3 5.1.0 and cvc5 1.0.3"}],
    "checks": checks,
    "notes": "See DESIGN.md. Each check regenerates all obligations from /repo's working tree on every run; obligations that are not discharged are violations (named), known_findings.json lists repaired defects.",
    "not_applicable": na,
}
json.dump(m, open(os.path.join(V, 'MANIFEST.json'), 'w'), indent=1)
print(len(checks), 'checks,', len(na), 'not applicable')
