#!/bin/bash
# usage: tools/reseed.sh <seed-dir-name>... ; re-runs the property check against stored seeded mutants and updates meta.json
for s in "$@"; do
  d=/verif/seeded/$s; PROP=${s%%-*}
  git -C /repo apply $d/patch.diff || { echo "$s: patch does not apply"; continue; }
  (cd /verif && timeout 1500 ./check $PROP quick > $d/check_output.txt 2>&1); rc=$?
  git -C /repo apply -R $d/patch.diff
  nviol=$(grep -c '^VIOLATION' $d/check_output.txt)
  first=$(grep -m3 '^VIOLATION' $d/check_output.txt | sed 's/.*obligation=//' | tr '\n' ';')
  python3 - <<PY
import json
import os
p="$d/meta.json"; m=json.load(open(p)) if os.path.exists(p) else {"property":"$PROP","mutant":"$s".split("-")[1],"note":"demo verified when stored; meta created by reseed"}; m["check_exit_code"]=$rc; m["violations_reported"]=$nviol; m["first_violations"]="$first"; json.dump(m,open(p,"w"),indent=1)
PY
  echo "$s rc=$rc violations=$nviol $first"
done
