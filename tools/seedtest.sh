#!/bin/bash
# usage: tools/seedtest.sh <PROP> <source-dir-with-mutants> ; verifies each mutant's demo, runs the check, stores under /verif/seeded/
export GOFLAGS=-mod=mod GOPROXY=off GOSUMDB=off GOTOOLCHAIN=local
PROP=$1; SRC=$2
for d in $SRC/mutants/*/; do
  i=$(basename $d)
  out=/verif/seeded/$PROP-$i; mkdir -p $out
  cp $d/patch.diff $out/patch.diff; cp $d/demo_test.go $out/demo_test.go; cp $d/notes.md $out/notes.md 2>/dev/null
  pkgline=$(grep -m1 '^package ' $d/demo_test.go | awk '{print $2}')
  RUN=$(grep -o '^func Test[A-Za-z0-9_]*' $d/demo_test.go | sed 's/func //' | paste -sd'|')
  case $pkgline in rtree*) pdir=rtree;; carto*) pdir=carto;; *) pdir=geom;; esac
  wt=$(mktemp -d /tmp/seedwt.XXXX); rmdir $wt
  git -C /repo worktree add -q --detach $wt HEAD
  cp $d/demo_test.go $wt/$pdir/zz_demo_test.go
  (cd $wt && go test -count=1 -run "^($RUN)\$" ./$pdir/ >/tmp/seed_clean.log 2>&1); clean=$?
  (cd $wt && git apply $out/patch.diff 2>/tmp/seed_apply.log); applied=$?
  (cd $wt && go build ./$pdir/ >/dev/null 2>&1 && go test -count=1 -run "^($RUN)\$" ./$pdir/ >/tmp/seed_mut.log 2>&1); mut=$?
  (cd $wt && rm $pdir/zz_demo_test.go && go test -count=1 ./geom/ ./rtree/ ./carto/ >/tmp/seed_suite.log 2>&1); suite=$?
  git -C /repo worktree remove --force $wt
  # run our check on /repo with the patch
  git -C /repo apply $out/patch.diff; ap2=$?
  (cd /verif && timeout 1500 ./check $PROP quick > $out/check_output.txt 2>&1); rc=$?
  git -C /repo apply -R $out/patch.diff 
  nviol=$(grep -c '^VIOLATION' $out/check_output.txt)
  first=$(grep -m3 '^VIOLATION' $out/check_output.txt | sed 's/.*obligation=//' | tr '\n' ';')
  python3 - <<PY
import json
json.dump({"property":"$PROP","mutant":"$i","demo_passes_on_clean_tree":$clean==0,"patch_applies":$applied==0,"demo_fails_with_patch":$mut!=0,"existing_suite_passes_with_patch":$suite==0,
 "check_cmd":"./check $PROP quick","check_exit_code":$rc,"violations_reported":$nviol,"first_violations":"$first",
 "what_i_ran":"scratch worktree of /repo HEAD: demo without patch, git apply patch.diff, demo with patch, go test ./geom ./rtree ./carto with patch; then git -C /repo apply, ./check $PROP quick, git -C /repo apply -R $out/patch.diff"},open("$out/meta.json","w"),indent=1)
PY
  echo "$PROP-$i clean=$clean applied=$applied demo_with_patch=$mut suite=$suite check_rc=$rc violations=$nviol $first"
done
